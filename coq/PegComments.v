(* PegComments.v — definitions only.  The PARSER HALF of C09 (and the ATTACH input of C08): from the pair tree
   the PEG model (Peg.v on gen/Grammar.v) produces for a program text to the COMMENTED AST that
   `pairs_to_expr_with_comments` = `pairs_to_expr_inner(.., preserve_comments = true)`
   (blots-core/src/expressions.rs 1954-2413) builds, and to the statement list the two format drivers
   (blots-wasm/src/lib.rs::format_blots as mirrored in harness/src/s_c0809.rs::format_lib, blots/src/main.rs
   --format loop) hand to the formatter — the `list stmt` that coq/Formatter.v's `format_lib` / `format_cli`
   consume, so that the two halves compose.

   1. [list_loop_c] / [rec_loop_c] / [do_loop_c]: the `for pair in …` loops of the Rule::list / Rule::record /
      Rule::do_block arms with `pending_comments`, leading / trailing fields, `std::mem::take`, and the
      "attach any remaining comments to the last item" step ([Formatter.attach_after_last], already the
      transcription of lines 2046-2059 / 2126-2137; with no item the pending comments are DROPPED — finding
      C09-empty-container; a do-block has no such step: comments pending at its end are dropped, but the
      grammar puts the return_statement last, which takes them).
   2. [pexpr_c] … [parse_items_c]: pest's PrattParserMap::{parse, expr, nud, led} and the closures of
      pairs_to_expr_inner, the SAME text as Pratt.v (preserve_comments = false) except that the three container
      arms run the loops of 1.  (Pratt.v hard-wires its comment-dropping loops in `primary`, so the mutual
      fixpoint is repeated here; proofs/PegComments.v proves that erasing the comments of the result of
      [parse_items_c] gives the result of Pratt.parse_items.)
   3. [tree_comments]: the texts of the `comment` / `eol_comment` pairs of a pair tree, in tree order.
      [item_comments]: the same over the item view (PegToItems.conv) of the tree.
   4. [stmt_of_tree] / [program_of_forest] / [parse_program_c]: the statement loop shared by both drivers (first
      inner pair -> comment / output declaration / expression; second inner pair, if it is a `comment`, is the
      end-of-line comment; start / end line of the statement pair as pest's line_col counts them).
   5. [shape_ok]: the decidable well-formedness predicate on item streams that the theorems assume and the
      C09P correspondence stream tests on every tree the interpreter produces (grammar facts: a do-block has
      exactly one return_statement, at the end; a comment-only do_statement has no second comment; no comment
      text contains a line feed), and [no_empty_container]: the decidable EXCLUSION = finding class
      C09-empty-container (a list / record whose inner pairs are comments only).
   6. [show_program_c]: the canonical dump the harness stream `c09p` prints. *)
From Coq Require Import String Ascii List NArith ZArith Bool Arith.
Require Import Blots.Num Blots.gen.Builtins Blots.Ast Blots.Outcome Blots.PrattTypes Blots.gen.PrecTable
               Blots.Pratt Blots.Formatter.
Require Import Blots.Peg Blots.gen.Grammar Blots.PegToItems.
Import ListNotations.
Local Open Scope string_scope.
Local Open Scope list_scope.
Local Open Scope nat_scope.
Local Notation expr := Ast.expr.

(* ------------------------------------------------------------------ 1. the container loops *)
Section LoopsC.
  Variable parse : list item -> outcome tres.

  (* Rule::list, expressions.rs 2012-2044.  `trailing = inner.next().map(|p| p.as_str().to_string())` *)
  Fixpoint list_loop_c (els : list lelem) (pending : list string) (elements : list (commented expr))
    : outcome (option (list (commented expr) * list string)) :=
    match els with
    | [] => Outcome.Ok (Some (elements, pending))
    | LCom c :: els' => list_loop_c els' (pending ++ [c]) elements
    | LItem g eol :: els' =>
        do e <- parse g;
        match e with
        | None => Outcome.Ok None
        | Some e' => list_loop_c els' [] (elements ++ [Cm pending e' eol])
        end
    end.
  Definition list_arm_c (els : list lelem) : outcome tres :=
    do r <- list_loop_c els [] [];
    Outcome.Ok (option_map (fun ep => EList (attach_after_last (fst ep) (snd ep))) r).

  (* Rule::record, 2067-2124 (the record_pair / record_shorthand / spread_expression fallback arms are for
     pairs the grammar does not produce directly under `record`; PegToItems.conv drops such pairs) *)
  Fixpoint rec_loop_c (els : list relem) (pending : list string) (entries : list (commented rentry))
    : outcome (option (list (commented rentry) * list string)) :=
    match els with
    | [] => Outcome.Ok (Some (entries, pending))
    | RCom c :: els' => rec_loop_c els' (pending ++ [c]) entries
    | RPairI k v eol :: els' =>
        do key <- key_of parse k;
        match key with
        | None => Outcome.Ok None
        | Some key' =>
            do val <- parse v;
            match val with
            | None => Outcome.Ok None
            | Some val' => rec_loop_c els' [] (entries ++ [Cm pending (REntry key' val') eol])
            end
        end
    | RShortI s eol :: els' => rec_loop_c els' [] (entries ++ [Cm pending (REntry (KShort s) ENull) eol])
    | RSpreadI g eol :: els' =>
        do e <- parse g;
        match e with
        | None => Outcome.Ok None
        | Some e' => rec_loop_c els' [] (entries ++ [Cm pending (REntry (KSpread e') ENull) eol])
        end
    end.
  Definition rec_arm_c (els : list relem) : outcome tres :=
    do r <- rec_loop_c els [] [];
    Outcome.Ok (option_map (fun ep => ERec (attach_after_last (fst ep) (snd ep))) r).

  (* Rule::do_block, 2226-2283.  A do_statement whose first pair is a comment pushes it to the pending comments
     and does NOT look at a second pair; what is pending after the loop is not attached to anything. *)
  Fixpoint do_loop_c (els : list delem) (pending : list string) (stmts : list (commented expr))
           (ret : commented expr) : outcome tres :=
    match els with
    | [] => Outcome.Ok (Some (EDo stmts ret))
    | PrattTypes.DStmt g c :: els' =>
        do e <- parse g;
        match e with
        | None => Outcome.Ok None
        | Some e' => do_loop_c els' [] (stmts ++ [Cm pending e' c]) ret
        end
    | DComStmt s _ :: els' => do_loop_c els' (pending ++ [s]) stmts ret
    | DCom s :: els' => do_loop_c els' (pending ++ [s]) stmts ret
    | DRet g :: els' =>
        do e <- parse g;
        match e with
        | None => Outcome.Ok None
        | Some e' => do_loop_c els' [] stmts (Cm pending e' None)
        end
    end.
  Definition do_arm_c (els : list delem) : outcome tres := do_loop_c els [] [] (uncommented ENull).
End LoopsC.

(* ------------------------------------------------------------------ 2. the Pratt parser with the commented arms *)
Section ParserC.
  Variable tbl : ops_map.
  Variable imap : list (oprule * binop).
  Variable pmap : list (oprule * prefix_ctor).

  Fixpoint pexpr_c (fuel rbp : nat) (its : list item) {struct fuel} : outcome (tres * list item) :=
    match fuel with
    | O => Unmodelled
    | S f =>
        match its with
        | [] => Outcome.Panic
        | pr0 :: rest =>
            do lr <-
               match item_op pr0 with
               | Some r =>
                   match ops_get tbl r with
                   | Some (Prefix, p) =>
                       do rr <- pexpr_c f (p - 1) rest;
                       do e <- map_prefix pmap r (fst rr);
                       Outcome.Ok (e, snd rr)
                   | Some _ => Outcome.Panic
                   | None => Outcome.Panic
                   end
               | None => do e <- primary_c f pr0; Outcome.Ok (e, rest)
               end;
            ploop_c f rbp (fst lr) (snd lr)
        end
    end
  with ploop_c (fuel rbp : nat) (lhs : tres) (its : list item) {struct fuel} : outcome (tres * list item) :=
    match fuel with
    | O => Unmodelled
    | S f =>
        do l <- lbp tbl its;
        if Nat.ltb rbp l then
          match its with
          | [] => Outcome.Panic
          | pr0 :: rest =>
              match item_op pr0 with
              | Some r =>
                  match ops_get tbl r with
                  | Some (Infix a, p) =>
                      do rr <- pexpr_c f (match a with ALeft => p | ARight => p - 1 end) rest;
                      do e <- map_infix imap lhs r (fst rr);
                      ploop_c f rbp e (snd rr)
                  | Some (Postfix, _) =>
                      do e <- map_postfix_c f lhs pr0;
                      ploop_c f rbp e rest
                  | _ => Outcome.Panic
                  end
              | None => Outcome.Panic
              end
          end
        else Outcome.Ok (lhs, its)
    end
  with map_postfix_c (fuel : nat) (lhs : tres) (pr0 : item) {struct fuel} : outcome tres :=
    match fuel with
    | O => Unmodelled
    | S f =>
        match pr0 with
        | IOp R_factorial => Outcome.Ok (option_map EFact lhs)
        | IAccess inner =>
            do i <- parse_items_c f inner;
            Outcome.Ok (match i, lhs with Some i', Some l => Some (EAccess l i') | _, _ => None end)
        | IDot fld => Outcome.Ok (option_map (fun l => EDot l fld) lhs)
        | ICall args =>
            do a <- omapM (parse_items_c f) args;
            Outcome.Ok (match a, lhs with Some a', Some l => Some (ECall l a') | _, _ => None end)
        | _ => Outcome.Panic
        end
    end
  with primary_c (fuel : nat) (pr0 : item) {struct fuel} : outcome tres :=
    match fuel with
    | O => Unmodelled
    | S f =>
        match pr0 with
        | INum x => Outcome.Ok (Some (ENum x))
        | IBadNum => Outcome.Ok None
        | IStr s => Outcome.Ok (Some (EStr s))
        | IBool b => Outcome.Ok (Some (EBool b))
        | INull => Outcome.Ok (Some ENull)
        | IIdent s =>
            Outcome.Ok (Some (match builtin_of_name s with Some b => EBuiltin b | None => EId s end))
        | IInRef s => Outcome.Ok (Some (EInRef s))
        | IExpr _ g => parse_items_c f g
        | IList els => list_arm_c (parse_items_c f) els
        | IRecord els => rec_arm_c (parse_items_c f) els
        | ILambda args body =>
            do b <- parse_items_c f body; Outcome.Ok (option_map (ELam args) b)
        | ICond c t e =>
            do c' <- parse_items_c f c;
            match c' with
            | None => Outcome.Ok None
            | Some c'' =>
                do t' <- parse_items_c f t;
                match t' with
                | None => Outcome.Ok None
                | Some t'' => do e' <- parse_items_c f e; Outcome.Ok (option_map (ECond c'' t'') e')
                end
            end
        | IDo els => do_arm_c (parse_items_c f) els
        | IAssign x v =>
            do v' <- parse_items_c f v; Outcome.Ok (option_map (EAssign x) v')
        | IOp _ | IAccess _ | IDot _ | ICall _ => Outcome.Panic
        end
    end
  (* pairs_to_expr_inner(pairs, true) *)
  with parse_items_c (fuel : nat) (its : list item) {struct fuel} : outcome tres :=
    match fuel with
    | O => Unmodelled
    | S f => do r <- pexpr_c f 0 its; Outcome.Ok (fst r)
    end.
End ParserC.

(* pairs_to_expr_with_comments on the crate's table, ample fuel (same bound as Pratt.pratt) *)
Definition pratt_c (its : list item) : outcome tres :=
  parse_items_c impl_table infix_map prefix_map (4 * items_size its + 4) its.

(* ------------------------------------------------------------------ 3. comment sequences *)
Definition opt_list (o : option string) : list string := match o with Some c => [c] | None => [] end.

(* the `comment` / `eol_comment` pairs of a pair tree, in tree (= text) order *)
Section TreeComments.
  Variable text : string.
  Definition is_comment_rule (r : grule) : bool :=
    match r with PG_comment | PG_eol_comment => true | _ => false end.
  Fixpoint tree_comments (t : tree grule) : list string :=
    match t with
    | Node r s e kids =>
        (if is_comment_rule r then [slice text s e] else []) ++
        (fix go (l : list (tree grule)) : list string :=
           match l with [] => [] | k :: l' => tree_comments k ++ go l' end) kids
    end.
  Definition forest_comments (l : list (tree grule)) : list string := flat_map tree_comments l.
End TreeComments.

(* the comment texts of an item stream, in order *)
Fixpoint item_comments (i : item) : list string :=
  let ics := fix ics (l : list item) : list string :=
               match l with [] => [] | x :: r => item_comments x ++ ics r end in
  match i with
  | IExpr _ g => ics g
  | IList els =>
      (fix go (l : list lelem) : list string :=
         match l with
         | [] => []
         | LCom c :: r => c :: go r
         | LItem g eol :: r => ics g ++ opt_list eol ++ go r
         end) els
  | IRecord els =>
      (fix go (l : list relem) : list string :=
         match l with
         | [] => []
         | RCom c :: r => c :: go r
         | RPairI k v eol :: r =>
             match k with RKDyn inner => ics inner | _ => [] end ++ ics v ++ opt_list eol ++ go r
         | RShortI _ eol :: r => opt_list eol ++ go r
         | RSpreadI g eol :: r => ics g ++ opt_list eol ++ go r
         end) els
  | ILambda _ body => ics body
  | ICond c t e => ics c ++ ics t ++ ics e
  | IDo els =>
      (fix go (l : list delem) : list string :=
         match l with
         | [] => []
         | PrattTypes.DStmt g c :: r => ics g ++ opt_list c ++ go r
         | DComStmt s c :: r => s :: opt_list c ++ go r
         | DRet g :: r => ics g ++ go r
         | DCom s :: r => s :: go r
         end) els
  | IAssign _ v => ics v
  | IAccess inner => ics inner
  | ICall args =>
      (fix go (l : list (list item)) : list string :=
         match l with [] => [] | g :: r => ics g ++ go r end) args
  | _ => []
  end.
Fixpoint items_comments (l : list item) : list string :=
  match l with [] => [] | x :: r => item_comments x ++ items_comments r end.
Fixpoint lels_comments (l : list lelem) : list string :=
  match l with
  | [] => []
  | LCom c :: r => c :: lels_comments r
  | LItem g eol :: r => items_comments g ++ opt_list eol ++ lels_comments r
  end.
Fixpoint rels_comments (l : list relem) : list string :=
  match l with
  | [] => []
  | RCom c :: r => c :: rels_comments r
  | RPairI k v eol :: r =>
      match k with RKDyn inner => items_comments inner | _ => [] end ++ items_comments v ++ opt_list eol
      ++ rels_comments r
  | RShortI _ eol :: r => opt_list eol ++ rels_comments r
  | RSpreadI g eol :: r => items_comments g ++ opt_list eol ++ rels_comments r
  end.
Fixpoint dels_comments (l : list delem) : list string :=
  match l with
  | [] => []
  | PrattTypes.DStmt g c :: r => items_comments g ++ opt_list c ++ dels_comments r
  | DComStmt s c :: r => s :: opt_list c ++ dels_comments r
  | DRet g :: r => items_comments g ++ dels_comments r
  | DCom s :: r => s :: dels_comments r
  end.
Fixpoint args_comments (l : list (list item)) : list string :=
  match l with [] => [] | g :: r => items_comments g ++ args_comments r end.

(* ------------------------------------------------------------------ 5. shape and exclusion predicates *)
Definition nl_free (s : string) : bool := negb (contains_nl s).
Definition onl_free (o : option string) : bool := match o with Some s => nl_free s | None => true end.
Definition l_is_item (x : lelem) : bool := match x with LItem _ _ => true | LCom _ => false end.
Definition r_is_item (x : relem) : bool := match x with RCom _ => false | _ => true end.

(* [item_all P i]: P holds of the pair i and of every pair nested in it *)
Fixpoint item_all (P : item -> bool) (i : item) : bool :=
  let all := fix all (l : list item) : bool := match l with [] => true | x :: r => item_all P x && all r end in
  P i &&
  match i with
  | IExpr _ g => all g
  | IList els =>
      (fix go (l : list lelem) : bool :=
         match l with [] => true | LCom _ :: r => go r | LItem g _ :: r => all g && go r end) els
  | IRecord els =>
      (fix go (l : list relem) : bool :=
         match l with
         | [] => true
         | RCom _ :: r => go r
         | RPairI k v _ :: r => match k with RKDyn inner => all inner | _ => true end && all v && go r
         | RShortI _ _ :: r => go r
         | RSpreadI g _ :: r => all g && go r
         end) els
  | ILambda _ body => all body
  | ICond c t e => all c && all t && all e
  | IDo els =>
      (fix go (l : list delem) : bool :=
         match l with
         | [] => true
         | PrattTypes.DStmt g _ :: r => all g && go r
         | DRet g :: r => all g && go r
         | DComStmt _ _ :: r => go r
         | DCom _ :: r => go r
         end) els
  | IAssign _ v => all v
  | IAccess inner => all inner
  | ICall args =>
      (fix go (l : list (list item)) : bool := match l with [] => true | g :: r => all g && go r end) args
  | _ => true
  end.
Fixpoint items_all (P : item -> bool) (l : list item) : bool :=
  match l with [] => true | x :: r => item_all P x && items_all P r end.
Fixpoint lels_all (P : item -> bool) (l : list lelem) : bool :=
  match l with [] => true | LCom _ :: r => lels_all P r | LItem g _ :: r => items_all P g && lels_all P r end.
Fixpoint rels_all (P : item -> bool) (l : list relem) : bool :=
  match l with
  | [] => true
  | RCom _ :: r => rels_all P r
  | RPairI k v _ :: r =>
      match k with RKDyn inner => items_all P inner | _ => true end && items_all P v && rels_all P r
  | RShortI _ _ :: r => rels_all P r
  | RSpreadI g _ :: r => items_all P g && rels_all P r
  end.
Fixpoint dels_all (P : item -> bool) (l : list delem) : bool :=
  match l with
  | [] => true
  | PrattTypes.DStmt g _ :: r => items_all P g && dels_all P r
  | DRet g :: r => items_all P g && dels_all P r
  | DComStmt _ _ :: r => dels_all P r
  | DCom _ :: r => dels_all P r
  end.
Fixpoint args_all (P : item -> bool) (l : list (list item)) : bool :=
  match l with [] => true | g :: r => items_all P g && args_all P r end.

(* what the grammar guarantees about ONE pair, as far as the comment bookkeeping depends on it:
   - no comment text contains a line feed (comment = "//" ~ (!plain_newline ~ ANY)* );
   - do_block = "do" "{" (comment | do_statement)* comment* return_statement "}": exactly one return_statement,
     and it is the last inner pair;
   - a do_statement that starts with a comment has no second comment (the first one runs to the line's end) *)
Definition lelem_shape (x : lelem) : bool :=
  match x with LCom c => nl_free c | LItem _ eol => onl_free eol end.
Definition relem_shape (x : relem) : bool :=
  match x with
  | RCom c => nl_free c
  | RPairI _ _ eol | RShortI _ eol | RSpreadI _ eol => onl_free eol
  end.
Fixpoint do_shape (l : list delem) : bool :=
  match l with
  | [] => false                                          (* no return_statement *)
  | [DRet _] => true
  | PrattTypes.DStmt _ c :: r => onl_free c && do_shape r
  | DComStmt s c :: r => nl_free s && match c with None => true | Some _ => false end && do_shape r
  | DCom s :: r => nl_free s && do_shape r
  | DRet _ :: _ => false                                 (* a return_statement that is not the last pair *)
  end.
Definition shape_here (i : item) : bool :=
  match i with
  | IList els => forallb lelem_shape els
  | IRecord els => forallb relem_shape els
  | IDo els => do_shape els
  | _ => true
  end.
Definition shape_ok : item -> bool := item_all shape_here.
Definition shapes_ok : list item -> bool := items_all shape_here.

(* EXCLUSION (finding C09-empty-container): a list / record pair whose inner pairs are comments only, with at
   least one comment: `pending_comments` is non-empty after the loop and there is no element to attach to *)
Definition lels_attachable (els : list lelem) : bool :=
  existsb l_is_item els || forallb l_is_item els.
Definition rels_attachable (els : list relem) : bool :=
  existsb r_is_item els || forallb r_is_item els.
Definition attachable_here (i : item) : bool :=
  match i with
  | IList els => lels_attachable els
  | IRecord els => rels_attachable els
  | _ => true
  end.
Definition no_empty_container : item -> bool := item_all attachable_here.
Definition no_empty_containers : list item -> bool := items_all attachable_here.

(* ------------------------------------------------------------------ 4. statements and the driver loop *)
Section Driver.
  Variable text : string.

  (* pest Position::line_col().0 : 1 + the number of "\n" before the byte offset *)
  Fixpoint count_nl (n : nat) (s : string) : Z :=
    match n, s with
    | S n', String c r => ((if Ascii.eqb c NLc then 1 else 0) + count_nl n' r)%Z
    | _, _ => 0%Z
    end.
  Definition line_of (p : N) : Z := (1 + count_nl (N.to_nat p) text)%Z.

  Definition conv_kids (t : tree grule) : list item :=
    map (conv text (S (tree_depth t))) (tkids t).

  (* the token streams handed to pairs_to_expr_with_comments by one `statement` pair (None: a comment statement
     or a pair without inner pairs) *)
  Definition stmt_items (t : tree grule) : option (list item) :=
    match tkids t with
    | first :: _ =>
        match trule first with
        | PG_comment => None
        | _ => Some (conv_kids first)
        end
    | [] => None
    end.

  (* `if let Some(eol_comment) = inner_pairs.next() { if eol_comment.as_rule() == Rule::comment {..} }` *)
  Definition stmt_eol (t : tree grule) : option string :=
    match tkids t with
    | _ :: second :: _ => if is_rule PG_comment second then Some (tspan text second) else None
    | _ => None
    end.

  (* one `statement` pair -> the stmt of Formatter.v; Ok None = the conversion returned Err (GLUEERR);
     Ok (Some None) = a statement pair without inner pairs (skipped by both loops) *)
  Definition stmt_of_tree (t : tree grule) : outcome (option (option stmt)) :=
    match t with
    | Node _ s e kids =>
        match kids with
        | [] => Outcome.Ok (Some None)
        | first :: _ =>
            let mk (k : stmt_kind) := Some (Some (St k (stmt_eol t) (line_of s) (line_of e))) in
            match trule first with
            | PG_comment => Outcome.Ok (mk (SComment (tspan text first)))
            | PG_output_declaration =>
                do r <- pratt_c (conv_kids first);
                Outcome.Ok (match r with Some x => mk (SOut x) | None => None end)
            | _ =>
                do r <- pratt_c (conv_kids first);
                Outcome.Ok (match r with Some x => mk (SExpr x) | None => None end)
            end
        end
    end.

  Fixpoint program_of_forest (l : list (tree grule)) : outcome (option (list stmt)) :=
    match l with
    | [] => Outcome.Ok (Some [])
    | t :: l' =>
        if is_rule PG_statement t then
          do s <- stmt_of_tree t;
          match s with
          | None => Outcome.Ok None
          | Some s' =>
              do r <- program_of_forest l';
              Outcome.Ok (option_map (fun p => match s' with Some x => x :: p | None => p end) r)
          end
        else program_of_forest l'
    end.

  (* all token streams of a forest's statements (for the shape / exclusion predicates) *)
  Definition forest_items (l : list (tree grule)) : list (list item) :=
    flat_map (fun t => if is_rule PG_statement t
                       then match stmt_items t with Some g => [g] | None => [] end else []) l.
End Driver.

(* the item view reads every comment pair: the `comment` / `eol_comment` pairs of the tree are exactly the comment
   texts of the token streams / statement fields the drivers and pairs_to_expr_with_comments look at
   (decidable; tested by the C09P stream on every tree the interpreter produces) *)
Fixpoint strs_eqb (a b : list string) : bool :=
  match a, b with
  | [], [] => true
  | x :: a', y :: b' => String.eqb x y && strs_eqb a' b'
  | _, _ => false
  end.
Definition stmt_view_comments (text : string) (t : tree grule) : list string :=
  match tkids t with
  | [] => []
  | first :: _ =>
      match trule first with
      | PG_comment => [tspan text first]
      | _ => items_comments (conv_kids text first)
      end ++ opt_list (stmt_eol text t)
  end.
Definition forest_view_comments (text : string) (l : list (tree grule)) : list string :=
  flat_map (fun t => if is_rule PG_statement t then stmt_view_comments text t else []) l.
Definition forest_view_ok (text : string) (l : list (tree grule)) : bool :=
  strs_eqb (forest_comments text l) (forest_view_comments text l).

Definition forest_shape_ok (text : string) (l : list (tree grule)) : bool :=
  forallb shapes_ok (forest_items text l).
Definition forest_no_empty_container (text : string) (l : list (tree grule)) : bool :=
  forallb no_empty_containers (forest_items text l).

Inductive parse_c_result :=
| PCOk (forest : list (tree grule)) (p : list stmt)
| PCGlueErr | PCReject | PCPanic | PCFuel.

(* text -> pairs (PEG model) -> commented statements *)
Definition parse_program_c (text : string) : parse_c_result :=
  match Peg.parse blots_grammar (peg_fuel text) PG_input text with
  | Peg.Ok s =>
      let forest := rev (out s) in
      match program_of_forest text forest with
      | Outcome.Ok (Some p) => PCOk forest p
      | Outcome.Ok None => PCGlueErr
      | Outcome.Panic => PCPanic
      | _ => PCFuel
      end
  | Peg.Fail _ => PCReject
  | Peg.Panic => PCPanic
  | Peg.OutOfFuel => PCFuel
  end.

(* ------------------------------------------------------------------ 6. the dump (twin of harness s_c09p.rs)
   One comment = role letter + hex of its text.  Expression skeleton: every node is a tag and its children;
   a commented element is  {l<hex>,l<hex>|<node>|t<hex of the whole trailing field>} . *)
Definition hexdigit (n : N) : ascii :=
  ascii_of_N (if N.ltb n 10 then 48 + n else 87 + n).
Fixpoint hex_of (s : string) : string :=
  match s with
  | "" => ""
  | String c r => let n := N_of_ascii c in String (hexdigit (N.div n 16)) (String (hexdigit (N.modulo n 16)) (hex_of r))
  end.
Definition show_lead (l : list string) : string := String.concat "" (map (fun c => "l" +++ hex_of c +++ ",") l).
Definition show_trail (t : option string) : string :=
  match t with Some c => "t" +++ hex_of c | None => "" end.

Fixpoint skel (e : expr) : string :=
  let cm := fun (c : commented expr) =>
              match c with Cm l n t => "{" +++ show_lead l +++ "|" +++ skel n +++ "|" +++ show_trail t +++ "}" end in
  match e with
  | ENum _ => "n" | EStr _ => "s" | EBool _ => "b" | ENull => "u" | EId _ => "i" | EInRef _ => "r"
  | EBuiltin _ => "f"
  | EList items =>
      "L(" +++ (fix go (l : list (commented expr)) : string :=
                 match l with [] => "" | c :: r => cm c +++ go r end) items +++ ")"
  | ERec entries =>
      "R(" +++ (fix go (l : list (commented rentry)) : string :=
                 match l with
                 | [] => ""
                 | Cm l0 (REntry k v) t :: r =>
                     "{" +++ show_lead l0 +++ "|" +++
                     match k with
                     | KStatic _ => "k:" +++ skel v
                     | KDyn d => "d" +++ skel d +++ ":" +++ skel v
                     | KShort _ => "h"
                     | KSpread x => "." +++ skel x
                     end +++ "|" +++ show_trail t +++ "}" +++ go r
                 end) entries +++ ")"
  | ELam _ body => "F(" +++ skel body +++ ")"
  | ECond c t f => "C(" +++ skel c +++ skel t +++ skel f +++ ")"
  | EDo stmts ret =>
      "D(" +++ (fix go (l : list (commented expr)) : string :=
                 match l with [] => "" | c :: r => cm c +++ go r end) stmts +++ ";" +++ cm ret +++ ")"
  | EAssign _ v => "A(" +++ skel v +++ ")"
  | EOutput x => "O(" +++ skel x +++ ")"
  | ECall f args =>
      "K(" +++ skel f +++ (fix go (l : list expr) : string :=
                           match l with [] => "" | a :: r => "," +++ skel a +++ go r end) args +++ ")"
  | EAccess a i => "X(" +++ skel a +++ skel i +++ ")"
  | EDot a _ => "T(" +++ skel a +++ ")"
  | EBin _ l r => "B(" +++ skel l +++ skel r +++ ")"
  | EUn _ a => "U(" +++ skel a +++ ")"
  | EFact a => "!(" +++ skel a +++ ")"
  | ESpread a => "S(" +++ skel a +++ ")"
  end.

Definition show_Z (z : Z) : string := show_N (Z.to_N z).
Definition show_stmt_c (s : stmt) : string :=
  match s with
  | St k eol sl el =>
      show_Z sl +++ ":" +++ show_Z el +++ " " +++
      match k with
      | SComment c => "c" +++ hex_of c
      | SOut e => "o" +++ skel e
      | SExpr e => "e" +++ skel e
      end +++ match eol with Some c => " E" +++ hex_of c | None => "" end
  end.

Definition hexlist (l : list string) : string := PegToItems.sjoin "," (map hex_of l).

(* "OK <statements joined by ;;> ## <tree comments> ## <shape_ok><no_empty_container>" *)
Definition show_program_c (text : string) : string :=
  match parse_program_c text with
  | PCOk forest p =>
      "OK " +++ PegToItems.sjoin " ;; " (map show_stmt_c p)
  | PCGlueErr => "GLUEERR"
  | PCReject => "REJECT"
  | PCPanic => "PANIC"
  | PCFuel => "FUEL"
  end.

(* the model-side facts the stream records for every accepted text: the tree's comment pairs, whether the
   forest has the assumed shape, whether it is outside the exclusion, and whether the theorem's conclusion
   holds on it (computed; the theorem says shape && no_empty => equal) *)
Definition show_facts_c (text : string) : string :=
  match parse_program_c text with
  | PCOk forest p =>
      let tc := forest_comments text forest in
      let pc := program_comments p in
      hexlist tc +++ " ## " +++ hexlist pc +++ " ## " +++
      (if forest_shape_ok text forest then "S" else "s") +++
      (if forest_no_empty_container text forest then "N" else "n")
  | _ => "-"
  end.

(* both dumps from ONE evaluation of the parser: "<show_program_c> @@ <show_facts_c>" *)
Definition show_all_c (text : string) : string :=
  match parse_program_c text with
  | PCOk forest p =>
      let tc := forest_comments text forest in
      let pc := program_comments p in
      "OK " +++ PegToItems.sjoin " ;; " (map show_stmt_c p) +++ " @@ " +++
      hexlist tc +++ " ## " +++ hexlist pc +++ " ## " +++
      (if forest_shape_ok text forest then "S" else "s") +++
      (if forest_no_empty_container text forest then "N" else "n") +++
      (if forest_view_ok text forest then "V" else "v")
  | PCGlueErr => "GLUEERR"
  | PCReject => "REJECT"
  | PCPanic => "PANIC"
  | PCFuel => "FUEL"
  end.
