(* PegToItems.v — definitions only: from the pair tree the PEG model (Peg.v on gen/Grammar.v) produces for a
   program text to the token streams (`item`s, PrattTypes.v) that the transcription of pest's Pratt parser and
   of pairs_to_expr_inner (Pratt.v) consumes; so that  text -> pairs -> items -> AST  is ONE executable model:
   [parse_text].  An `item` is a pest Pair with the inner pairs the glue code reads (expressions.rs,
   pairs_to_expr_inner / parse_record_entry); [conv] reads exactly those: `as_str()` is the slice of the text
   under the pair's span, `into_inner().as_str()` the slice from the first inner pair's start to the last one's
   end.  Number tokens are converted by NumText.literal_value_rf (the repaired radix conversion) over
   ref_str_parse, the executable reference of Rust's str::parse::<f64>.
   What the harness stream `parse10` prints is reproduced by [show_program]: statements in order, "E <expr>" /
   "O <expr>" joined by " ;; ", comment statements dropped, GLUEERR if any conversion is an Err. *)
From Coq Require Import String Ascii List NArith Bool.
Require Import Blots.Num Blots.gen.Builtins Blots.Ast Blots.Outcome Blots.PrattTypes Blots.gen.PrecTable
               Blots.Pratt Blots.PrattRender Blots.NumText.
Require Import Blots.Peg Blots.gen.Grammar.
Import ListNotations.
Local Open Scope string_scope.

Definition op_of (r : grule) : option oprule :=
  match r with
  | PG_add => Some R_add | PG_subtract => Some R_subtract | PG_multiply => Some R_multiply
  | PG_divide => Some R_divide | PG_modulo => Some R_modulo | PG_power => Some R_power
  | PG_equal => Some R_equal | PG_not_equal => Some R_not_equal | PG_less => Some R_less
  | PG_less_eq => Some R_less_eq | PG_greater => Some R_greater | PG_greater_eq => Some R_greater_eq
  | PG_dot_equal => Some R_dot_equal | PG_dot_not_equal => Some R_dot_not_equal | PG_dot_less => Some R_dot_less
  | PG_dot_less_eq => Some R_dot_less_eq | PG_dot_greater => Some R_dot_greater
  | PG_dot_greater_eq => Some R_dot_greater_eq
  | PG_and => Some R_and | PG_natural_and => Some R_natural_and | PG_or => Some R_or
  | PG_natural_or => Some R_natural_or | PG_via => Some R_via | PG_into => Some R_into
  | PG_where_ => Some R_where_ | PG_coalesce => Some R_coalesce
  | PG_negation => Some R_negation | PG_spread_operator => Some R_spread_operator | PG_invert => Some R_invert
  | PG_natural_not => Some R_natural_not | PG_factorial => Some R_factorial
  | _ => None
  end.

Section Conv.
  Variable text : string.
  Definition slice (s e : N) : string := stake (N.to_nat (e - s)) (sdrop (N.to_nat s) text).
  Definition tspan (t : tree grule) : string := match t with Node _ s e _ => slice s e end.
  Definition tstart (t : tree grule) : N := match t with Node _ s _ _ => s end.
  Definition tend (t : tree grule) : N := match t with Node _ _ e _ => e end.
  Definition trule (t : tree grule) : grule := match t with Node r _ _ _ => r end.
  Definition tkids (t : tree grule) : list (tree grule) := match t with Node _ _ _ k => k end.
  (* Pairs::as_str *)
  Definition inner_str (kids : list (tree grule)) : string :=
    match kids with
    | [] => ""
    | k :: _ => slice (tstart k) (tend (last kids k))
    end.
  Definition is_rule (r : grule) (t : tree grule) : bool := N.eqb (grule_index (trule t)) (grule_index r).
  Definition opt_comment (l : list (tree grule)) : option string :=
    match l with c :: _ => Some (tspan c) | [] => None end.

  Definition number_item (tok : string) : item :=
    match literal_value_rf true ref_str_parse tok with Some x => INum x | None => IBadNum end.

  Fixpoint conv (fuel : nat) (t : tree grule) : item :=
    match fuel with
    | O => IBadNum
    | S f =>
        let convs (l : list (tree grule)) : list item := map (conv f) l in
        let inner (k : tree grule) : list item := convs (tkids k) in
        match t with
        | Node r s e kids =>
            match r with
            | PG_number => number_item (slice s e)
            | PG_string => IStr (inner_str kids)
            | PG_bool => IBool (String.eqb (slice s e) "true")
            | PG_null => INull
            | PG_identifier => IIdent (slice s e)
            | PG_input_reference => IInRef (sdrop 1 (slice s e))
            | PG_expression | PG_lambda_expression => IExpr false (convs kids)
            | PG_list =>
                IList (map (fun k =>
                              match trule k with
                              | PG_comment => LCom (tspan k)
                              | PG_list_item =>
                                  match tkids k with
                                  | first :: more => LItem (inner first) (opt_comment more)
                                  | [] => LItem [] None
                                  end
                              | _ => LItem (inner k) None
                              end) kids)
            | PG_record =>
                IRecord (flat_map (fun k =>
                              match trule k with
                              | PG_comment => [RCom (tspan k)]
                              | PG_record_item =>
                                  match tkids k with
                                  | entry :: more =>
                                      let eol := opt_comment more in
                                      match trule entry with
                                      | PG_record_pair =>
                                          match tkids entry with
                                          | key :: value :: _ =>
                                              let kk :=
                                                  match trule key with
                                                  | PG_record_key_static =>
                                                      match tkids key with
                                                      | ik :: _ =>
                                                          match trule ik with
                                                          | PG_string => RKStr (inner_str (tkids ik))
                                                          | _ => RKId (tspan ik)
                                                          end
                                                      | [] => RKId ""
                                                      end
                                                  | _ => RKDyn (inner key)
                                                  end in
                                              [RPairI kk (inner value) eol]
                                          | _ => []
                                          end
                                      | PG_record_shorthand => [RShortI (inner_str (tkids entry)) eol]
                                      | _ => [RSpreadI (inner entry) eol]
                                      end
                                  | [] => []
                                  end
                              | _ => []
                              end) kids)
            | PG_lambda =>
                match kids with
                | arg_list :: body :: _ =>
                    ILambda (flat_map (fun ak =>
                                         match trule ak with
                                         | PG_required_arg => [AReq (inner_str (tkids ak))]
                                         | PG_optional_arg => [AOpt (inner_str (tkids ak))]
                                         | PG_rest_arg => [ARest (inner_str (tkids ak))]
                                         | _ => []
                                         end) (tkids arg_list))
                            (inner body)
                | _ => IBadNum
                end
            | PG_conditional =>
                match kids with
                | c :: t1 :: e1 :: _ => ICond (inner c) (inner t1) (inner e1)
                | _ => IBadNum
                end
            | PG_do_block =>
                IDo (flat_map (fun k =>
                                 match trule k with
                                 | PG_do_statement =>
                                     match tkids k with
                                     | first :: more =>
                                         let c := match more with
                                                  | m :: _ => if is_rule PG_comment m then Some (tspan m) else None
                                                  | [] => None
                                                  end in
                                         match trule first with
                                         | PG_expression => [DStmt (inner first) c]
                                         | PG_comment => [DComStmt (tspan first) c]
                                         | _ => []
                                         end
                                     | [] => []
                                     end
                                 | PG_return_statement =>
                                     match tkids k with
                                     | ex :: _ => [DRet (inner ex)]
                                     | [] => []
                                     end
                                 | PG_comment => [DCom (tspan k)]
                                 | _ => []
                                 end) kids)
            | PG_assignment =>
                match kids with
                | x :: v :: _ => IAssign (tspan x) (inner v)
                | _ => IBadNum
                end
            | PG_access => IAccess (convs kids)
            | PG_dot_access => IDot (inner_str kids)
            | PG_call_list => ICall (map inner kids)
            | _ => match op_of r with Some o => IOp o | None => IBadNum end
            end
        end
    end.

  (* one statement pair -> what parse10 prints for it *)
  Definition stmt_result (fuel : nat) (t : tree grule) : option (string * outcome tres) :=
    match tkids t with
    | first :: _ =>
        match trule first with
        | PG_expression => Some ("E", pratt_impl (map (conv fuel) (tkids first)))
        | PG_output_declaration => Some ("O", pratt_impl (map (conv fuel) (tkids first)))
        | PG_comment => None
        | _ => Some ("?", Outcome.Ok None)
        end
    | [] => None
    end.
End Conv.

Fixpoint tree_depth (t : tree grule) : nat :=
  match t with Node _ _ _ kids => S (fold_right (fun k n => Nat.max (tree_depth k) n) 0 kids) end.

Fixpoint join_results (l : list (string * outcome tres)) : option (list string) :=
  match l with
  | [] => Some []
  | (k, Outcome.Ok (Some e)) :: l' =>
      match join_results l' with Some r => Some ((k ++ " " ++ show_expr e) :: r) | None => None end
  | _ => None
  end.
Fixpoint sjoin (sep : string) (l : list string) : string :=
  match l with [] => "" | [x] => x | x :: l' => x ++ sep ++ sjoin sep l' end.

(* text -> pairs (PEG model) -> items -> AST (Pratt model), printed as harness `parse10` prints it *)
Definition parse_text (text : string) : string :=
  match Peg.parse blots_grammar (peg_fuel text) PG_input text with
  | Peg.Ok s =>
      let forest := rev (out s) in
      let fuel := S (fold_right (fun k n => Nat.max (tree_depth k) n) 0 forest) in
      let rs := flat_map (fun t => if N.eqb (grule_index (trule t)) (grule_index PG_statement)
                                   then match stmt_result text fuel t with Some r => [r] | None => [] end
                                   else []) forest in
      if existsb (fun r => match snd r with Outcome.Panic => true | _ => false end) rs then "PANIC"
      else if existsb (fun r => match snd r with Outcome.Unmodelled => true | _ => false end) rs then "OUTOFFUEL"
      else match join_results rs with
           | Some l => sjoin " ;; " l
           | None => "GLUEERR"
           end
  | Peg.Fail _ => "REJECT"
  | Peg.Panic => "PANIC"
  | Peg.OutOfFuel => "FUEL"
  end.
