(* RelTable.v — classification of the built-in arms by what they OBSERVE of their argument values; the facts the
   parametricity proofs (proofs/RelPure.v, C02OpsFull.v, EmitHOOpsFull.v, C02Blind.v) rest on.  Definitions only.
   The generated table coq/gen/ArmObservers.v (from the SOURCE TEXT of BuiltInFunction::call) is proved equal to this
   classification in Properties/C02.v / C05.v, so a code change that makes another arm apply Value::equals /
   Value::compare, or call a function value, is noticed on the next run. *)
From Coq Require Import String List Bool.
Require Import Blots.Num Blots.gen.Builtins Blots.Ast Blots.Value Blots.Outcome
               Blots.BuiltinsList Blots.BuiltinsText.
Require Blots.BuiltinsAgg.
Import ListNotations.

(* ---- the pure arms that EvalFull.builtin_full adds to EvalInst.builtin_impl, as a table ---- *)
Definition pure_arm_of (b : builtin) : option (list value -> outcome value) :=
  match b with
  | B_min => Some BuiltinsAgg.bi_min | B_max => Some BuiltinsAgg.bi_max | B_avg => Some BuiltinsAgg.bi_avg
  | B_sum => Some BuiltinsAgg.bi_sum | B_prod => Some BuiltinsAgg.bi_prod
  | B_median => Some BuiltinsAgg.bi_median | B_percentile => Some BuiltinsAgg.bi_percentile
  | B_dot => Some BuiltinsAgg.bi_dot
  | B_range => Some bi_range | B_len => Some bi_len | B_head => Some bi_head | B_tail => Some bi_tail
  | B_slice => Some bi_slice | B_concat => Some bi_concat | B_unique => Some bi_unique
  | B_sort => Some bi_sort | B_reverse => Some bi_reverse | B_split => Some bi_split
  | B_replace => Some bi_replace | B_includes => Some bi_includes | B_keys => Some bi_keys
  | B_values => Some bi_values | B_entries => Some bi_entries | B_flatten => Some bi_flatten
  | B_zip => Some bi_zip | B_chunk => Some bi_chunk
  | B_convert => Some bi_convert | B_round => Some bi_round | B_random => Some bi_random
  | B_to_number => Some bi_to_number | B_to_string => Some bi_to_string | B_join => Some bi_join_full
  | _ => None
  end.
(* the arms that apply Value::equals to argument elements *)
Definition equals_based (b : builtin) : bool :=
  match b with B_unique | B_includes => true | _ => false end.
Definition callback_arm (b : builtin) : bool :=
  match b with B_sort_by | B_group_by | B_count_by => true | _ => false end.
(* the callback-taking arms of EvalInst.builtin_impl *)
Definition hof_arm (b : builtin) : bool :=
  match b with B_map | B_filter | B_reduce | B_every | B_some => true | _ => false end.
(* every arm that calls a function value *)
Definition calls_back (b : builtin) : bool := callback_arm b || hof_arm b.
(* the arms that apply Value::compare to (keys of) argument elements *)
Definition compare_based (b : builtin) : bool :=
  match b with B_sort | B_sort_by | B_ugt | B_ult | B_ugte | B_ulte => true | _ => false end.
