(* TextRun.v — definitions only: program TEXT -> outputs as ONE executable model.

     bytes --Peg.parse blots_grammar (gen/Grammar.v)--> pairs --PegToItems.conv--> Pratt items
           --Pratt.pratt_impl--> Ast.expr per statement --Program.exec_stmt over an evaluator--> results,
           root bindings, outputs object

   i.e. blots/src/main.rs::evaluate_source (get_pairs; for every `statement` pair evaluate_pairs =
   pairs_to_expr + evaluate_ast; output bookkeeping) as a Gallina function of the text alone.  The evaluators
   are the existing ones: EvalAll.eval_all o (every built-in, oracle record), AllRun.eval_run T (oracle = lookup
   tables), EvalFull.eval_full.

   Faithfulness points (put side by side with main.rs / harness streams.rs::run_program):
   * get_pairs fails  -> nothing is evaluated: outcome [TReject]  ("Parse error", exit 1).
   * pairs_to_expr runs PER STATEMENT, inside evaluate_pairs, when the loop reaches the statement: a glue error
     (`Err` of pairs_to_expr, [Outcome.Ok None] of Pratt.pratt_impl) is an EVALUATION error of that statement
     ("[evaluation error]", exit 1) after the earlier statements have run — [TGlueErr] in the statement list, not a
     property of the whole text.  [parse_text_ast] is the all-or-nothing view (what `harness parse` prints).
   * a comment statement is [SComment] (harness parse: "C <hex>"), skipped by Program.run.
   * a `statement` pair whose first inner pair is none of expression / output_declaration / comment is main.rs's
     `unreachable!` -> [TGluePanic] (not produced by the grammar).  Top-level pairs other than `statement`
     (EOI) are skipped.
   * fuel: [parse_text_stmts_fuel] takes the PEG fuel explicitly; [parse_text_stmts] uses Peg.peg_fuel text.
     PEG exhaustion is [TIFuel] / [TParseFuel] ("FUEL"); exhaustion of the Pratt model's own fuel is [TGlueFuel]
     (shown as UNMODELLED by Program.show_result); both are counted by the TEXT-EVAL stream and must be 0.

   Canonical text ([show_text_outcome], twin of harness/src/s_text.rs `text-eval`):
       <Program.show_run> ";OUT:" <outputs object: hex(name)=show_value None v, insertion order>
   and "REJECT;ENV:;OUT:" for a rejected text (the session then holds only `inputs`, which show_env omits). *)
From Coq Require Import String Ascii List NArith ZArith Bool.
Require Import Blots.Peg Blots.gen.Grammar Blots.PrattTypes Blots.Pratt Blots.PegToItems.
Require Import Blots.Num Blots.gen.Builtins Blots.Ast Blots.Value Blots.Outcome Blots.Env Blots.Eval Blots.Show
               Blots.Program Blots.EvalInst Blots.EvalFull Blots.EvalAll Blots.AllRun.
Import ListNotations.
Open Scope string_scope.
Open Scope list_scope.

(* ------------------------------------------------------------------ 1. text -> statements *)

(* one `statement` pair as the loop of evaluate_source meets it *)
Inductive text_stmt :=
| TStmt (s : Program.stmt)     (* pairs_to_expr succeeded (or a comment) *)
| TGlueErr                     (* pairs_to_expr returned Err: evaluate_pairs fails with it *)
| TGluePanic                   (* pairs_to_expr panicked / unreachable!() *)
| TGlueFuel.                   (* the Pratt MODEL ran out of its fuel (not a behaviour of the code) *)

Definition glue_stmt (mk : Ast.expr -> Program.stmt) (r : outcome tres) : text_stmt :=
  match r with
  | Outcome.Ok (Some e) => TStmt (mk e)
  | Outcome.Ok None => TGlueErr
  | Outcome.Panic => TGluePanic
  | Outcome.Unmodelled => TGlueFuel
  | Outcome.Err | Outcome.ErrDepth => TGlueErr          (* not produced by Pratt.pratt_impl *)
  end.

(* [t] is a `statement` pair; None = no inner pair (`if let Some(inner_pair)` fails: nothing happens) *)
Definition text_stmt_of (text : string) (fuel : nat) (t : tree grule) : option text_stmt :=
  match tkids t with
  | first :: _ =>
      match trule first with
      | PG_expression => Some (glue_stmt SExpr (pratt_impl (map (conv text fuel) (tkids first))))
      | PG_output_declaration => Some (glue_stmt SOut (pratt_impl (map (conv text fuel) (tkids first))))
      | PG_comment => Some (TStmt SComment)
      | _ => Some TGluePanic
      end
  | [] => None
  end.

Inductive text_items :=
| TIOk (l : list text_stmt)    (* get_pairs accepted: the statements in order *)
| TIReject                     (* get_pairs Err *)
| TIPanic                      (* the PEG engine panicked (stack expect) *)
| TIFuel.                      (* the PEG MODEL ran out of fuel *)

Definition forest_conv_fuel (forest : list (tree grule)) : nat :=
  S (fold_right (fun k n => Nat.max (tree_depth k) n) O forest).

Definition stmts_of_forest (text : string) (forest : list (tree grule)) : list text_stmt :=
  let cf := forest_conv_fuel forest in
  flat_map (fun t => if is_rule PG_statement t
                     then match text_stmt_of text cf t with Some r => [r] | None => [] end
                     else []) forest.

Definition parse_text_stmts_fuel (fuel : nat) (text : string) : text_items :=
  match Peg.parse blots_grammar fuel PG_input text with
  | Peg.Ok s => TIOk (stmts_of_forest text (rev (Peg.out s)))
  | Peg.Fail _ => TIReject
  | Peg.Panic => TIPanic
  | Peg.OutOfFuel => TIFuel
  end.
Definition parse_text_stmts (text : string) : text_items := parse_text_stmts_fuel (peg_fuel text) text.

(* the all-or-nothing view: the AST of the whole program (what `harness parse` hands to the EVAL / ALL streams),
   with the same priorities as PegToItems.parse_text: Panic, then model fuel, then GLUEERR *)
Inductive text_parse :=
| TPOk (prog : list Program.stmt) | TPReject | TPGlueErr | TPPanic | TPFuel.

Definition is_glue_panic (t : text_stmt) : bool := match t with TGluePanic => true | _ => false end.
Definition is_glue_fuel (t : text_stmt) : bool := match t with TGlueFuel => true | _ => false end.
Fixpoint stmts_all_ok (l : list text_stmt) : option (list Program.stmt) :=
  match l with
  | [] => Some []
  | TStmt s :: r => match stmts_all_ok r with Some p => Some (s :: p) | None => None end
  | _ :: _ => None
  end.
Definition parse_text_ast_fuel (fuel : nat) (text : string) : text_parse :=
  match parse_text_stmts_fuel fuel text with
  | TIOk l =>
      if existsb is_glue_panic l then TPPanic
      else if existsb is_glue_fuel l then TPFuel
      else match stmts_all_ok l with Some p => TPOk p | None => TPGlueErr end
  | TIReject => TPReject
  | TIPanic => TPPanic
  | TIFuel => TPFuel
  end.
Definition parse_text_ast (text : string) : text_parse := parse_text_ast_fuel (peg_fuel text) text.

(* ------------------------------------------------------------------ 2. the statement loop over text statements *)

Inductive text_outcome :=
| TRun (sr : session * list (Program.stmt_result * store))   (* as Program.run returns it *)
| TReject | TParsePanic | TParseFuel.

Section TextRun.
  Variable eval : cfg -> Ast.expr -> result.

  (* Program.run, with pairs_to_expr's failure as the failure of the statement it belongs to:
     run_tstmts s (map TStmt p) = Program.run eval s p *)
  Fixpoint run_tstmts (s : session) (prog : list text_stmt)
    : session * list (Program.stmt_result * store) :=
    match prog with
    | [] => (s, [])
    | TStmt t :: rest =>
        let '(s', r) := exec_stmt eval s t in
        let st' := fst (s_cfg s') in
        match r with
        | ROk _ => let '(s'', rs) := run_tstmts s' rest in (s'', (r, st') :: rs)
        | RSkip => run_tstmts s' rest
        | _ => (s', [(r, st')])
        end
    | TGlueErr :: _ => (s, [(RFail Outcome.Err, fst (s_cfg s))])
    | TGluePanic :: _ => (s, [(RFail Outcome.Panic, fst (s_cfg s))])
    | TGlueFuel :: _ => (s, [(RFail Outcome.Unmodelled, fst (s_cfg s))])
    end.

  Definition run_text_res_fuel (fuel : nat) (inputs : list (string * value)) (text : string) : text_outcome :=
    match parse_text_stmts_fuel fuel text with
    | TIOk l => TRun (run_tstmts (init_session inputs) l)
    | TIReject => TReject
    | TIPanic => TParsePanic
    | TIFuel => TParseFuel
    end.
  Definition run_text_res (inputs : list (string * value)) (text : string) : text_outcome :=
    run_text_res_fuel (peg_fuel text) inputs text.
End TextRun.

(* ------------------------------------------------------------------ 3. canonical text *)
Definition show_outputs (outs : list (string * value)) : string :=
  join "," (map (fun kv => (hex_of_string (fst kv) ++ "=" ++ show_value None (snd kv))%string) outs).
Definition show_run_out (sr : session * list (Program.stmt_result * store)) : string :=
  (show_run sr ++ ";OUT:" ++ show_outputs (s_outputs (fst sr)))%string.
Definition show_text_outcome (r : text_outcome) : string :=
  match r with
  | TRun sr => show_run_out sr
  | TReject => "REJECT;ENV:;OUT:"
  | TParsePanic => "PANIC"
  | TParseFuel => "FUEL"
  end.

(* ------------------------------------------------------------------ 4. the instances *)
Definition run_text_with (eval : cfg -> Ast.expr -> result) (inputs : list (string * value)) (text : string)
  : string := show_text_outcome (run_text_res eval inputs text).

(* every built-in, oracle record (EvalAll): what the theorems are about *)
Definition run_text (o : oracle) (inputs : list (string * value)) (text : string) : string :=
  run_text_with (eval_all o) inputs text.
(* oracle = the lookup tables the harness dumps (AllRun): what the TEXT-EVAL stream runs;
   run_text_tab T = run_text (oracle_of T) by unfolding *)
Definition run_text_tab (T : tables) (inputs : list (string * value)) (text : string) : string :=
  run_text_with (eval_run T) inputs text.
(* the evaluator of the EVAL stream (library-backed built-ins answer Unmodelled) *)
Definition run_text_full (inputs : list (string * value)) (text : string) : string :=
  run_text_with eval_full inputs text.

(* the lambda-text table of AllRun.tables keyed by the model's OWN parse of the lambda's source (the stream hands
   over (source, text of to_string) pairs; no AST from the real parser enters the model) *)
Definition lam_table_of_texts (l : list (string * string)) : list (Ast.expr * string) :=
  flat_map (fun st => match parse_text_ast (fst st) with
                      | TPOk [SExpr e] => [(e, snd st)]
                      | _ => []
                      end) l.
