(* Formatter.v — DOCUMENT model of blots-core/src/formatter.rs, of the two statement drivers
   (blots-wasm/src/lib.rs::format_blots = "library driver", blots/src/main.rs --format loop =
   "CLI driver") and of join_statements_with_spacing.  Definitions only.

   Every Rust function that builds a `String` is transcribed as a function that builds a
   document: a list of pieces, where a piece is a run of code text, one comment, or a line
   break.  `result.push_str(x)` / `format!("{}{}", a, b)` become list concatenation, so that
       render d  = the Rust string            (concatenation of the pieces' text)
       doc_comments d = the comments, in order
   and all layout decisions the Rust code takes on strings (`single_line.len()`,
   `.contains('\n')`, `.lines().next()`) are taken on `render` of the corresponding document.
   `dlines d` is the same document as a list of lines (list (list piece)).

   expr_to_source, needs_parens_in_binop, needs_parens_in_postfix, lambda_body_needs_parens and
   format_record_key (ast_to_source.rs) are oracles (record `oracles`): the formatter treats their results as opaque text.  An executable instance
   (transcription of ast_to_source.rs, number text supplied by a table) is at the end of the
   file and is what the FORMAT correspondence stream runs. *)
From Coq Require Import String Ascii List ZArith Bool.
Require Import Blots.Num Blots.gen.Builtins Blots.Ast.
Import ListNotations.
Open Scope string_scope.
Open Scope list_scope.
Open Scope nat_scope.

Infix "+++" := String.append (right associativity, at level 60).

(* ------------------------------------------------------------------ Rust string operations *)
Definition NLc : ascii := "010"%char.
Definition CRc : ascii := "013"%char.
Definition nl : string := String NLc "".

(* s.contains('\n') *)
Fixpoint contains_nl (s : string) : bool :=
  match s with
  | "" => false
  | String c r => Ascii.eqb c NLc || contains_nl r
  end.

(* " ".repeat(n) *)
Fixpoint make_indent (n : nat) : string :=
  match n with O => "" | S k => String " " (make_indent k) end.

(* Vec<String>::join(sep) *)
Fixpoint sjoin (sep : string) (l : list string) : string :=
  match l with
  | [] => ""
  | [x] => x
  | x :: r => x +++ sep +++ sjoin sep r
  end.

(* s.split('\n') : never empty *)
Fixpoint split_nl (s : string) : list string :=
  match s with
  | "" => [""]
  | String c r =>
      if Ascii.eqb c NLc then "" :: split_nl r
      else match split_nl r with
           | x :: t => String c x :: t
           | [] => [String c ""]
           end
  end.

(* line.strip_suffix('\r') *)
Fixpoint strip_cr (s : string) : string :=
  match s with
  | "" => ""
  | String c "" => if Ascii.eqb c CRc then "" else s
  | String c r => String c (strip_cr r)
  end.

(* str::lines(): split_inclusive('\n'), each line loses its "\n" and then one "\r"; a final
   unterminated line is kept as it is, an empty one is not produced. *)
Fixpoint rust_lines_aux (parts : list string) : list string :=
  match parts with
  | [] => []
  | [last] => if String.eqb last "" then [] else [last]
  | p :: rest => strip_cr p :: rust_lines_aux rest
  end.
Definition rust_lines (s : string) : list string := rust_lines_aux (split_nl s).

(* s.lines().next().unwrap_or(&s) *)
Definition first_line (s : string) : string :=
  match rust_lines s with x :: _ => x | [] => s end.

(* s.split('\n').next().unwrap_or(&s) *)
Definition first_split (s : string) : string :=
  match split_nl s with x :: _ => x | [] => s end.

(* ------------------------------------------------------------------ comments of an AST *)
(* A `trailing` field holds one comment, or several joined by "\n" (expressions.rs:1997). *)
Definition trailing_comments (t : option string) : list string :=
  match t with Some s => split_nl s | None => [] end.

Section CommentFolds.
  Variable f : expr -> list string.
  Fixpoint items_comments (l : list (commented expr)) : list string :=
    match l with
    | [] => []
    | Cm lead n tr :: r => lead ++ f n ++ trailing_comments tr ++ items_comments r
    end.
  Definition entry_comments (e : rentry) : list string :=
    match e with
    | REntry (KStatic _) v => f v
    | REntry (KDyn k) v => f k ++ f v
    | REntry (KShort _) _ => []
    | REntry (KSpread x) _ => f x
    end.
  Fixpoint entries_comments (l : list (commented rentry)) : list string :=
    match l with
    | [] => []
    | Cm lead e tr :: r => lead ++ entry_comments e ++ trailing_comments tr ++ entries_comments r
    end.
End CommentFolds.

(* The comment sequence carried by a (commented) AST, in source order. *)
Fixpoint expr_comments (e : expr) : list string :=
  match e with
  | EList items => items_comments expr_comments items
  | ERec entries => entries_comments expr_comments entries
  | ELam _ body => expr_comments body
  | ECond c t f => expr_comments c ++ expr_comments t ++ expr_comments f
  | EDo stmts (Cm rl rn rt) =>
      items_comments expr_comments stmts ++ rl ++ expr_comments rn ++ trailing_comments rt
  | EAssign _ v => expr_comments v
  | EOutput x => expr_comments x
  | ECall f args => expr_comments f ++ flat_map expr_comments args
  | EAccess a i => expr_comments a ++ expr_comments i
  | EDot a _ => expr_comments a
  | EBin _ l r => expr_comments l ++ expr_comments r
  | EUn _ a => expr_comments a
  | EFact a => expr_comments a
  | ESpread a => expr_comments a
  | _ => []
  end.

(* comment-free *)
Definition cfree (e : expr) : bool := match expr_comments e with [] => true | _ => false end.

(* ------------------------------------------------------------------ documents *)
(* Code s: literal layout text.  Opaque e s: the text s that expr_to_source / format_single_line
   printed for the whole expression e (rendered as s; e is kept only so that theorems can say
   which sub-expressions were printed without looking inside).  Comment c.  Nl: "\n". *)
Inductive piece :=
| Code (s : string) | Opaque (e : expr) (s : string) | Comment (c : string) | Nl
| Relined (e : expr) (s : string).   (* the text of e re-assembled from lines(), see binop_doc *)
Definition doc := list piece.

Definition render_piece (p : piece) : string :=
  match p with Code s => s | Opaque _ s => s | Comment c => c | Nl => nl | Relined _ s => s end.
Fixpoint render (d : doc) : string :=
  match d with [] => "" | p :: r => render_piece p +++ render r end.

Definition piece_comments (p : piece) : list string :=
  match p with Comment c => [c] | _ => [] end.
Definition doc_comments (d : doc) : list string := flat_map piece_comments d.

(* the expressions printed opaquely, and the comments the document accounts for: those it
   shows plus those carried by the opaquely printed expressions *)
Definition piece_opaque (p : piece) : list expr :=
  match p with Opaque e _ | Relined e _ => [e] | _ => [] end.
Definition doc_opaque (d : doc) : list expr := flat_map piece_opaque d.
Definition piece_all_comments (p : piece) : list string :=
  match p with Comment c => [c] | Opaque e _ | Relined e _ => expr_comments e | _ => [] end.
Definition doc_relined (d : doc) : list expr :=
  flat_map (fun p => match p with Relined e _ => [e] | _ => [] end) d.
Definition doc_all_comments (d : doc) : list string := flat_map piece_all_comments d.

(* the same document as a list of lines *)
Fixpoint dlines_aux (cur : list piece) (d : doc) : list (list piece) :=
  match d with
  | [] => [rev cur]
  | Nl :: r => rev cur :: dlines_aux [] r
  | p :: r => dlines_aux (p :: cur) r
  end.
Definition dlines (d : doc) : list (list piece) := dlines_aux [] d.

Definition ind (n : nat) : piece := Code (make_indent n).

(* The formatter pushes a `trailing` string as it is; as a document it is one Comment piece
   per line. *)
Fixpoint dcomment_lines (l : list string) : doc :=
  match l with
  | [] => []
  | [c] => [Comment c]
  | c :: r => Comment c :: Nl :: dcomment_lines r
  end.
Definition dtrailing (t : string) : doc := dcomment_lines (split_nl t).

(* Commented::has_comments *)
Definition has_comments {A} (c : commented A) : bool :=
  negb (match cleading c with [] => true | _ => false end)
  || match ctrailing c with Some _ => true | None => false end.

(* ------------------------------------------------------------------ the formatter *)
Definition lambda_arg_to_str (a : lamarg) : string :=
  match a with AReq x => x | AOpt x => x +++ "?" | ARest x => "..." +++ x end.

(* args part of a lambda, without the arrow *)
Definition lambda_args_part (args : list lamarg) : string :=
  match args with
  | [AReq x] => x
  | _ => "(" +++ sjoin ", " (map lambda_arg_to_str args) +++ ")"
  end.

Definition binary_op_str (op : binop) : string :=
  match op with
  | Add => "+" | Subtract => "-" | Multiply => "*" | Divide => "/" | Modulo => "%" | Power => "^"
  | Equal => "==" | NotEqual => "!=" | Less => "<" | LessEq => "<=" | Greater => ">"
  | GreaterEq => ">=" | DotEqual => ".==" | DotNotEqual => ".!=" | DotLess => ".<"
  | DotLessEq => ".<=" | DotGreater => ".>" | DotGreaterEq => ".>=" | And => "&&"
  | NaturalAnd => "and" | Or => "||" | NaturalOr => "or" | Via => "via" | Into => "into"
  | Where => "where" | Coalesce => "??"
  end.

Definition is_lambda (e : expr) : bool := match e with ELam _ _ => true | _ => false end.
Definition is_do (e : expr) : bool := match e with EDo _ _ => true | _ => false end.
Definition is_via_like (op : binop) : bool :=
  match op with Via | Into | Where => true | _ => false end.

Definition DEFAULT_MAX_COLUMNS : nat := 80.
Definition INDENT_SIZE : nat := 2.

(* what formatter.rs imports from ast_to_source.rs: opaque to the formatter *)
Record oracles := Oracles {
  o_e2s : expr -> string;                              (* expr_to_source *)
  o_needs_parens : binop -> expr -> bool -> bool;       (* needs_parens_in_binop *)
  o_record_key : string -> string;                      (* format_record_key *)
  o_postfix_parens : expr -> bool;                      (* needs_parens_in_postfix *)
  o_lambda_body_parens : expr -> bool;                  (* lambda_body_needs_parens *)
  o_unary_parens : expr -> bool;                        (* needs_parens_in_unary *)
  (* not an oracle but a version switch: true = formatter.rs as it is since ff5578e
     (fixes/C09-nested-comments.diff: expressions that contain comments are never printed
     through expr_to_source), false = formatter.rs before that commit.  Every theorem is stated
     for both versions; the checks run the model with true. *)
  o_keep_nested_comments : bool
}.

Definition unary_op_str (op : unop) : string :=
  match op with Negate => "-" | Not => "!" | Invert => "~" end.

(* contains_comments (formatter.rs, ff5578e): a list, record or do-block anywhere inside the
   expression carries a comment *)
Fixpoint contains_comments (e : expr) : bool :=
  match e with
  | EList items => existsb (fun c => has_comments c || contains_comments (cnode c)) items
  | ERec entries =>
      existsb (fun c => has_comments c ||
                        match cnode c with
                        | REntry (KDyn k) v => contains_comments k || contains_comments v
                        | REntry (KSpread k) v => contains_comments k || contains_comments v
                        | REntry _ v => contains_comments v
                        end) entries
  | ELam _ body => contains_comments body
  | ECond c t f => contains_comments c || contains_comments t || contains_comments f
  | EDo stmts ret =>
      existsb (fun c => has_comments c || contains_comments (cnode c)) stmts
      || has_comments ret || contains_comments (cnode ret)
  | EAssign _ v => contains_comments v
  | EOutput x => contains_comments x
  | ECall f args => contains_comments f || existsb contains_comments args
  | EAccess a i => contains_comments a || contains_comments i
  | EDot a _ => contains_comments a
  | EBin _ l r => contains_comments l || contains_comments r
  | EUn _ a => contains_comments a
  | EFact a => contains_comments a
  | ESpread a => contains_comments a
  | _ => false
  end.

(* formatted.starts_with('-') *)
Definition starts_with_minus (s : string) : bool :=
  match s with String c _ => Ascii.eqb c "-" | "" => false end.

Section Fmt.
  Variable O : oracles.
  Local Notation e2s := (o_e2s O).
  Local Notation needs_parens := (o_needs_parens O).
  Local Notation record_key := (o_record_key O).
  Local Notation postfix_parens := (o_postfix_parens O).
  Local Notation lambda_body_parens := (o_lambda_body_parens O).
  Local Notation unary_parens := (o_unary_parens O).
  Local Notation keep := (o_keep_nested_comments O).

  (* format_single_line (formatter.rs:45-93) and format_record_entry_single_line *)
  Fixpoint fsl (e : expr) : string :=
    match e with
    | EAssign x v => x +++ " = " +++ fsl v
    | EOutput x => "output " +++ fsl x
    | ELam args body =>
        lambda_args_part args +++ " => " +++
        (if lambda_body_parens body then "(" +++ fsl body +++ ")" else fsl body)
    | ECall f args =>
        (if postfix_parens f then "(" +++ fsl f +++ ")" else fsl f)
        +++ "(" +++ sjoin ", " (map fsl args) +++ ")"
    | EList items =>
        if existsb has_comments items then "[" +++ nl +++ "]"
        else "[" +++ sjoin ", " (map (fun c => fsl (cnode c)) items) +++ "]"
    | ERec entries =>
        if existsb has_comments entries then "{" +++ nl +++ "}"
        else "{" +++ sjoin ", "
               (map (fun c => match cnode c with
                              | REntry (KStatic key) v => record_key key +++ ": " +++ fsl v
                              | REntry (KDyn ke) v => "[" +++ fsl ke +++ "]: " +++ fsl v
                              | REntry (KShort name) _ => name
                              | REntry (KSpread x) _ => fsl x
                              end) entries) +++ "}"
    | _ => e2s e
    end.

  Variable w : nat.                                            (* max_cols *)

  Section Layouts.
    (* the recursive call format_expr_impl(child, max_cols, indent) *)
    Variable rec : expr -> nat -> doc.

    Definition leading_doc (i : nat) (lead : list string) : doc :=
      flat_map (fun c => [Nl; ind i; Comment c]) lead.
    Definition trailing_doc (tr : option string) : doc :=
      match tr with Some t => Code "  " :: dtrailing t | None => [] end.

    (* format_list_multiline (167-205) *)
    Fixpoint list_items_doc (l : list (commented expr)) (inner : nat) : doc :=
      match l with
      | [] => []
      | Cm lead n tr :: rest =>
          leading_doc inner lead ++ [Nl; ind inner] ++ rec n inner ++ [Code ","] ++
          trailing_doc tr ++ list_items_doc rest inner
      end.
    Definition list_doc (items : list (commented expr)) (i : nat) : doc :=
      match items with
      | [] => [Code "[]"]
      | _ => [Code "["] ++ list_items_doc items (i + INDENT_SIZE) ++ [Nl; ind i; Code "]"]
      end.

    (* format_record_entry (249-268) *)
    Definition entry_doc (r : rentry) (i : nat) : doc :=
      match r with
      | REntry (KStatic key) v => Code (record_key key +++ ": ") :: rec v i
      | REntry (KDyn ke) v => [Code "["] ++ rec ke i ++ [Code "]: "] ++ rec v i
      | REntry (KShort name) _ => [Code name]
      | REntry (KSpread x) _ => rec x i
      end.
    (* format_record_multiline (208-246) *)
    Fixpoint rec_entries_doc (l : list (commented rentry)) (inner : nat) : doc :=
      match l with
      | [] => []
      | Cm lead r tr :: rest =>
          leading_doc inner lead ++ [Nl; ind inner] ++ entry_doc r inner ++ [Code ","] ++
          trailing_doc tr ++ rec_entries_doc rest inner
      end.
    Definition record_doc (entries : list (commented rentry)) (i : nat) : doc :=
      match entries with
      | [] => [Code "{}"]
      | _ => [Code "{"] ++ rec_entries_doc entries (i + INDENT_SIZE) ++ [Nl; ind i; Code "}"]
      end.

    Definition wrap_parens (b : bool) (d : doc) : doc :=
      if b then [Code "("] ++ d ++ [Code ")"] else d.

    (* protect_leading_minus (formatter.rs, f304333): a statement after another one must not
       start with "-" *)
    Definition protect_minus (d : doc) (is_first : bool) : doc :=
      if negb is_first && starts_with_minus (render d) then [Code "("] ++ d ++ [Code ")"] else d.

    (* format_lambda; wrap_body = parentheses around a body with via/into/where (afe753e) *)
    Definition lambda_doc (args : list lamarg) (body : expr) (i : nat) : doc :=
      let args_part := lambda_args_part args +++ " =>" in
      if is_do body then [Code (args_part +++ " ")] ++ rec body i
      else
        let wrap_body := wrap_parens (lambda_body_parens body) in
        let single := [Code (args_part +++ " ")] ++ wrap_body (rec body i) in
        let s := render single in
        if negb (contains_nl s) && (i + String.length s <=? w)%nat then single
        else [Code args_part; Nl; ind (i + INDENT_SIZE)] ++ wrap_body (rec body (i + INDENT_SIZE)).

    (* format_conditional_multiline (307-387); fc/ft = the recursive call on condition / then *)
    Fixpoint cond_doc (fc ft : nat -> doc) (el : expr) (i : nat) {struct el} : doc :=
      let if_then_prefix := [Code "if "] ++ fc i ++ [Code " then"] in
      let inner := i + INDENT_SIZE in
      if (i + String.length (render if_then_prefix) <=? w)%nat then
        match el with
        | ECond c2 t2 e2 =>
            if_then_prefix ++ [Nl; ind inner] ++ ft inner ++ [Nl; ind i; Code "else "] ++
            cond_doc (rec c2) (rec t2) e2 i
        | _ =>
            if_then_prefix ++ [Nl; ind inner] ++ ft inner ++ [Nl; ind i; Code "else"; Nl; ind inner] ++
            rec el inner
        end
      else
        match el with
        (* `if` stays on the line of its condition (c99bd9c) *)
        | ECond c2 t2 e2 =>
            [Code "if "] ++ fc inner ++ [Nl; ind i; Code "then"; Nl; ind inner] ++
            ft inner ++ [Nl; ind i; Code "else "] ++ cond_doc (rec c2) (rec t2) e2 i
        | _ =>
            [Code "if "] ++ fc inner ++ [Nl; ind i; Code "then"; Nl; ind inner] ++
            ft inner ++ [Nl; ind i; Code "else"; Nl; ind inner] ++ rec el inner
        end.

    (* format_call_multiline (390-429) *)
    Definition call_doc (f : expr) (args : list expr) (i : nat) : doc :=
      let func_str := wrap_parens (postfix_parens f) (rec f i) in
      match args with
      | [] => func_str ++ [Code "()"]
      | _ =>
          let inner := i + INDENT_SIZE in
          func_str ++ [Code "("] ++
          flat_map (fun a => [Nl; ind inner] ++ rec a inner ++ [Code ","]) args ++
          [Nl; ind i; Code ")"]
      end.

    (* `first_line_of_right` + "\n" + `remaining_lines` (formatter.rs:467-479) as a string *)
    (* since the F55 repair (fix: the formatter keeps a carriage return ...) both pieces come from
       `split('\n')`, not `lines()`: no "\r" is stripped *)
    Definition relined (s : string) : string :=
      first_split s +++ nl +++ sjoin nl (tl (split_nl s)).

    (* format_binary_op_multiline (432-518) *)
    Definition binop_doc (op : binop) (l r : expr) (i : nat) : doc :=
      let op_str := binary_op_str op in
      let left := wrap_parens (needs_parens op l true) (rec l i) in
      let rp := needs_parens op r false in
      if is_via_like op && is_lambda r then
        let right := wrap_parens rp (rec r i) in
        let rs := render right in
        let first_line_combined := render left +++ " " +++ op_str +++ " " +++ first_split rs in
        if (i + String.length first_line_combined <=? w)%nat then
          if contains_nl rs then
            (* Rust re-assembles the right operand from `lines()`; when that is the identity
               (no "\r\n", no trailing "\n") the result is the document itself, otherwise the
               re-assembled text is kept as one opaque piece *)
            left ++ [Code (" " +++ op_str +++ " ")] ++
            (if String.eqb (relined rs) rs then right else [Relined r (relined rs)])
          else left ++ [Code (" " +++ op_str +++ " ")] ++ right
        else
          left ++ [Nl; ind i; Code (op_str +++ " ")] ++ wrap_parens rp (rec r i)
      else
        let right_indent := i + INDENT_SIZE in
        left ++ [Nl; ind right_indent; Code (op_str +++ " ")] ++
        wrap_parens rp (rec r right_indent).

    (* format_do_block_multiline (521-565) *)
    Fixpoint do_stmts_doc (l : list (commented expr)) (inner : nat) (first : bool) : doc :=
      match l with
      | [] => []
      | Cm lead n tr :: rest =>
          leading_doc inner lead ++ [Nl; ind inner] ++ protect_minus (rec n inner) first ++
          trailing_doc tr ++ do_stmts_doc rest inner false
      end.
    Definition do_doc (stmts : list (commented expr)) (ret : commented expr) (i : nat) : doc :=
      let inner := i + INDENT_SIZE in
      [Code "do {"] ++ do_stmts_doc stmts inner true ++
      leading_doc inner (cleading ret) ++ [Nl; ind inner; Code "return "] ++
      rec (cnode ret) inner ++ [Nl; ind i; Code "}"].

    (* format_multiline (116-144) *)
    Definition multiline_doc (e : expr) (i : nat) : doc :=
      match e with
      | EOutput x => Code "output " :: rec x i
      | EAssign x v => Code (x +++ " = ") :: rec v i
      | EList items => list_doc items i
      | ERec entries => record_doc entries i
      | ECond c t el => cond_doc (rec c) (rec t) el i
      | ECall f args => call_doc f args i
      | EBin op l r => binop_doc op l r i
      | EDo stmts ret => do_doc stmts ret i
      | _ =>
          (* since ff5578e: an operand that contains comments is laid out, not printed through
             expr_to_source *)
          if keep && contains_comments e then
            match e with
            | EUn op x => [Code (unary_op_str op)] ++ wrap_parens (unary_parens x) (rec x i)
            | EFact x => wrap_parens (postfix_parens x) (rec x i) ++ [Code "!"]
            | EAccess a ix =>
                wrap_parens (postfix_parens a) (rec a i) ++ [Code "["] ++ rec ix i ++ [Code "]"]
            | EDot a field => wrap_parens (postfix_parens a) (rec a i) ++ [Code ("." +++ field)]
            | ESpread x => [Code "..."] ++ rec x i
            | _ => [Opaque e (e2s e)]
            end
          else [Opaque e (e2s e)]
      end.

    (* the single-line test of format_expr_impl (27-38) *)
    Definition fits_single (e : expr) (i : nat) : bool :=
      let single_line := fsl e in
      negb (contains_nl single_line) && (i + String.length (first_line single_line) <=? w)%nat.

    (* format_expr_impl (15-42) with the recursive calls abstracted *)
    Definition impl_doc (e : expr) (i : nat) : doc :=
      match e with
      | ELam args body => lambda_doc args body i
      | EDo stmts ret => multiline_doc e i
      | _ =>
          if fits_single e i && negb (keep && contains_comments e) then [Opaque e (fsl e)]
          else multiline_doc e i
      end.
  End Layouts.

  (* format_expr_impl.  Since 65d1ae7 the Rust function is memoised per format_expr call
     (LAYOUT_CACHE keyed by node address, max_cols, indent); the model is the uncached function
     format_expr_uncached — the cache is sound exactly because the layout is a function of
     (node, max_cols, indent) only, which is what the model is by construction. *)
  Fixpoint fmtd (e : expr) (i : nat) {struct e} : doc := impl_doc fmtd e i.
End Fmt.

(* format_expr (formatter.rs:9-12) *)
Definition format_expr_doc (O : oracles) (e : expr) (max_columns : option nat) : doc :=
  fmtd O (match max_columns with Some n => n | None => DEFAULT_MAX_COLUMNS end) e 0.

(* ------------------------------------------------------------------ comments of a text
   The lexer-level scan that defines "the comment sequence of a text" (property C09's
   observation): outside string literals (quote ... same quote, no escapes, may span lines) a
   comment runs from "//" up to but excluding "\n" or "\r\n".  Written as a character automaton
   without look-ahead; the harness (Rust) and the checks (Python) carry the same scanner. *)
Inductive sst :=
| SCode                      (* in code *)
| SSlash                     (* in code, just after one "/" *)
| SStr (q : ascii)           (* inside a string literal opened by q *)
| SCom (cur : string)        (* inside a comment, text so far *)
| SComCR (cur : string).     (* inside a comment, a "\r" is pending *)

Definition is_quote (c : ascii) : bool := Ascii.eqb c """" || Ascii.eqb c "'".
Definition snoc (s : string) (c : ascii) : string := s +++ String c "".

Definition sstep (st : sst) (c : ascii) : list string * sst :=
  match st with
  | SCode => if is_quote c then ([], SStr c) else if Ascii.eqb c "/" then ([], SSlash) else ([], SCode)
  | SSlash => if Ascii.eqb c "/" then ([], SCom "//") else if is_quote c then ([], SStr c) else ([], SCode)
  | SStr q => if Ascii.eqb c q then ([], SCode) else ([], SStr q)
  | SCom cur => if Ascii.eqb c NLc then ([cur], SCode)
                else if Ascii.eqb c CRc then ([], SComCR cur) else ([], SCom (snoc cur c))
  | SComCR cur => if Ascii.eqb c NLc then ([cur], SCode)
                  else if Ascii.eqb c CRc then ([], SComCR (snoc cur CRc))
                  else ([], SCom (snoc (snoc cur CRc) c))
  end.
Fixpoint srun (st : sst) (s : string) : list string * sst :=
  match s with
  | "" => ([], st)
  | String c r => let (o, st') := sstep st c in let (o', st'') := srun st' r in (o ++ o', st'')
  end.
Definition sflush (st : sst) : list string :=
  match st with SCom cur => [cur] | SComCR cur => [snoc cur CRc] | _ => [] end.
Definition scan_from (st : sst) (s : string) : list string :=
  let (o, st') := srun st s in o ++ sflush st'.
Definition scan_comments (s : string) : list string := scan_from SCode s.

(* a piece of code text is lexically self-contained: scanned from code state it emits no
   comment and ends in code state (quotes balanced, no "//" outside them, no dangling "/") *)
Definition neutral (s : string) : Prop := srun SCode s = ([], SCode).
(* c is the text of one comment: "//" followed by neither "\n" nor "\r" *)
Definition is_comment_text (c : string) : Prop := srun SCode c = ([], SCom c).

(* a document whose code pieces are self-contained, whose comments are comment texts, and in
   which every comment is followed by a line break or ends the document *)
Fixpoint wf_doc (d : doc) : Prop :=
  match d with
  | [] => True
  | Code s :: r => neutral s /\ wf_doc r
  | Opaque _ s :: r => neutral s /\ wf_doc r
  | Relined _ s :: r => neutral s /\ wf_doc r
  | Nl :: r => wf_doc r
  | Comment c :: r =>
      is_comment_text c /\ match r with [] => True | Nl :: _ => wf_doc r | _ => False end
  end.

(* ------------------------------------------------------------------ statements and drivers *)
Inductive stmt_kind := SExpr (e : expr) | SOut (e : expr) | SComment (c : string).
(* one `statement` pair: first inner pair, optional second pair (end-of-line comment),
   start/end line of the pair's span *)
Inductive stmt := St (k : stmt_kind) (eol : option string) (start_line end_line : Z).

Definition stmt_comments (s : stmt) : list string :=
  match s with
  | St k eol _ _ =>
      (match k with SExpr e | SOut e => expr_comments e | SComment c => [c] end) ++
      (match eol with Some c => [c] | None => [] end)
  end.
Definition program_comments (p : list stmt) : list string := flat_map stmt_comments p.

(* usize::saturating_sub on line numbers *)
Definition sat_sub (a b : Z) : Z := Z.max 0 (a - b)%Z.
Definition line_gap (end_line next_start : Z) : Z := sat_sub (sat_sub next_start end_line) 1%Z.
Definition gap_newlines (end_line next_start : Z) : Z := Z.min (line_gap end_line next_start + 1)%Z 3%Z.

(* join_statements_with_spacing (formatter.rs:615-651) *)
Fixpoint join_spacing (l : list (doc * Z * Z)) : doc :=
  match l with
  | [] => []
  | (d, _, e) :: rest =>
      match rest with
      | [] => d
      | (_, s', _) :: _ => d ++ repeat Nl (Z.to_nat (gap_newlines e s')) ++ join_spacing rest
      end
  end.

(* Where the statements of a program end up in the text join_spacing produces: statement k
   starts on the line after the previous statement's last line plus the newlines emitted
   between them, and spans as many further lines as its text has "\n" (pest's line_col counts
   "\n").  `relayout start l` replaces the recorded (start_line, end_line) of every statement by
   these positions, the first statement starting on line `start`. *)
Fixpoint text_height (s : string) : Z :=
  match s with
  | "" => 0%Z
  | String c r => ((if Ascii.eqb c NLc then 1 else 0) + text_height r)%Z
  end.
Definition doc_height (d : doc) : Z := text_height (render d).

Fixpoint relayout (start : Z) (l : list (doc * Z * Z)) : list (doc * Z * Z) :=
  match l with
  | [] => []
  | (d, _, e) :: rest =>
      let e' := (start + doc_height d)%Z in
      (d, start, e') ::
      match rest with
      | [] => []
      | (_, s', _) :: _ => relayout (e' + gap_newlines e s')%Z rest
      end
  end.

Definition map_first {A B} (f : bool -> A -> B) (l : list A) : list B :=
  match l with [] => [] | x :: r => f true x :: map (f false) r end.

Section Drivers.
  Variable O : oracles.
  Local Notation format_expr := (format_expr_doc O).

  (* blots-wasm/src/lib.rs::format_blots statement loop; is_first = formatted_statements.is_empty() *)
  Definition lib_stmt (max_columns : option nat) (is_first : bool) (s : stmt) : doc * Z * Z :=
    match s with
    | St k eol sl el =>
        let formatted :=
          protect_minus
            match k with
            | SComment c => [Comment c]
            | SOut e => format_expr (EOutput e) max_columns
            | SExpr e => format_expr e max_columns
            end is_first in
        (match eol with Some c => formatted ++ [Code "  "; Comment c] | None => formatted end, sl, el)
    end.
  (* None = Err("No statements found in source") *)
  Definition format_lib (max_columns : option nat) (p : list stmt) : option doc :=
    match p with
    | [] => None
    | _ => Some (join_spacing (map_first (lib_stmt max_columns) p))
    end.

  (* blots/src/main.rs --format loop (since 9255709: the statement's second pair, its
     end-of-line comment, is appended as "  " + comment; every statement is followed by "\n";
     blank lines between statements are not kept; since f304333 an expression statement is
     passed through protect_leading_minus with is_first = formatted_output.is_empty()) *)
  Definition cli_stmt (is_first : bool) (s : stmt) : doc :=
    match s with
    | St k eol _ _ =>
        (match k with
         | SExpr e => protect_minus (format_expr e None) is_first
         | SOut e => format_expr (EOutput e) None
         | SComment c => [Comment c]
         end) ++ (match eol with Some c => [Code "  "; Comment c] | None => [] end) ++ [Nl]
    end.
  Definition format_cli (p : list stmt) : doc := concat (map_first cli_stmt p).
End Drivers.

(* ------------------------------------------------------------------ comment re-attachment
   Pair-level model of the parser's pending-comment bookkeeping (expressions.rs
   pairs_to_expr_with_comments: Rule::list 1953-2007, Rule::record 2008-2086, Rule::do_block
   2166-2230), used to state what happens to comment placement when the formatter's own output
   is parsed again.  Items are abstract (type A): only the comment bookkeeping is modelled. *)
Section Attach.
  Context {A : Type}.

  (* the inner pairs of a `list` / `record` pair: `comment`, or `list_item` / `record_item`
     (= the item and its optional eol_comment) *)
  Inductive lpair := PComment (c : string) | PItem (x : A) (eol : option string).

  (* the `for pair in list_pairs` loop *)
  Fixpoint attach_loop (pairs : list lpair) (pending : list string) (elements : list (commented A))
    : list (commented A) * list string :=
    match pairs with
    | [] => (elements, pending)
    | PComment c :: r => attach_loop r (pending ++ [c]) elements
    | PItem x eol :: r => attach_loop r [] (elements ++ [Cm pending x eol])
    end.

  (* "Attach any remaining comments (after the last item) as trailing comments to the last item" *)
  Definition attach_after_last (elements : list (commented A)) (pending : list string)
    : list (commented A) :=
    match pending with
    | [] => elements
    | _ =>
        match rev elements with
        | [] => elements                        (* no item: the comments are dropped *)
        | Cm l x tr :: before =>
            let trailing := sjoin nl pending in
            rev before ++
            [Cm l x (match tr with
                     | Some t => Some (t +++ nl +++ trailing)
                     | None => Some trailing
                     end)]
        end
    end.

  Definition attach (pairs : list lpair) : list (commented A) :=
    let (elements, pending) := attach_loop pairs [] [] in attach_after_last elements pending.

  (* The pairs the `list` / `record` rule yields on the layout format_list_multiline /
     format_record_multiline print: leading comments on their own lines are `comment` pairs; the
     item is followed directly by "," so it has no eol_comment; a trailing comment is printed
     AFTER the comma, where the grammar reads it (each of its lines) as a `comment` pair. *)
  Definition layout_pairs (items : list (commented A)) : list lpair :=
    flat_map (fun c => map PComment (cleading c) ++ [PItem (cnode c) None] ++
                       map PComment (trailing_comments (ctrailing c))) items.

  (* what the parser can produce: only the last item has a trailing comment *)
  Fixpoint only_last_trailing (items : list (commented A)) : bool :=
    match items with
    | [] => true
    | [_] => true
    | Cm _ _ tr :: r => match tr with None => only_last_trailing r | Some _ => false end
    end.

  (* grammar constraint on pair sequences: an eol_comment can only follow the last item (a
     non-last item is followed by "," on the same line) *)
  Fixpoint eol_only_last (pairs : list lpair) : bool :=
    match pairs with
    | [] => true
    | PComment _ :: r => eol_only_last r
    | PItem _ None :: r => eol_only_last r
    | PItem _ (Some _) :: r => forallb (fun p => match p with PComment _ => true | _ => false end) r
    end.

  (* do-block: `comment` pairs and do_statement pairs (statement + optional comment on the same
     line, or a comment alone), then the return_statement *)
  Inductive dpair := DComment (c : string) | DStmt (x : A) (tr : option string).
  Fixpoint attach_do_loop (pairs : list dpair) (pending : list string) (stmts : list (commented A))
    : list (commented A) * list string :=
    match pairs with
    | [] => (stmts, pending)
    | DComment c :: r => attach_do_loop r (pending ++ [c]) stmts
    | DStmt x tr :: r => attach_do_loop r [] (stmts ++ [Cm pending x tr])
    end.
  (* statements, and the return expression with the pending comments as its leading comments *)
  Definition attach_do (pairs : list dpair) (ret : A) : list (commented A) * commented A :=
    let (stmts, pending) := attach_do_loop pairs [] [] in (stmts, Cm pending ret None).

  (* the pairs the do_block rule yields on format_do_block_multiline's layout (since b1bc7c1
     do_statement = (expression | comment) ~ (WHITESPACE* ~ comment)?, so the "  // c" the
     formatter prints after a statement is that statement's comment) *)
  Definition do_layout_pairs (stmts : list (commented A)) (ret : commented A) : list dpair :=
    flat_map (fun c => map DComment (cleading c) ++ [DStmt (cnode c) (ctrailing c)]) stmts ++
    map DComment (cleading ret).
End Attach.
Arguments lpair : clear implicits.
Arguments dpair : clear implicits.

(* ------------------------------------------------------------------ executable oracles
   Transcription of ast_to_source.rs (expr_to_source, string_to_source, format_record_key,
   binding_level, tail, needs_parens_in_binop / _unary / _postfix, lambda_body_needs_parens as of
   afe753e), used to RUN the model against the implementation.  The theorems never look inside
   these.  operator_info comes from coq/gen/ParensTable.v (regenerated from the built crate). *)
Definition RESERVED_WORDS : list string :=
  ["if"; "then"; "else"; "true"; "false"; "null"; "and"; "or"; "not"; "do"; "return"; "output"].

Definition ascii_alpha (c : ascii) : bool :=
  let n := nat_of_ascii c in ((65 <=? n) && (n <=? 90) || (97 <=? n) && (n <=? 122))%nat.
Definition ascii_digit (c : ascii) : bool :=
  let n := nat_of_ascii c in ((48 <=? n) && (n <=? 57))%nat.
Fixpoint all_chars (f : ascii -> bool) (s : string) : bool :=
  match s with "" => true | String c r => f c && all_chars f r end.

Definition is_valid_identifier (s : string) : bool :=
  match s with
  | "" => false
  | String c r =>
      negb (existsb (String.eqb s) RESERVED_WORDS)
      && (ascii_alpha c || Ascii.eqb c "_")
      && all_chars (fun c => ascii_alpha c || ascii_digit c || Ascii.eqb c "_") r
  end.

Definition has_char (q : ascii) (s : string) : bool := negb (all_chars (fun c => negb (Ascii.eqb c q)) s).
Definition dq : ascii := """"%char.
Definition sq : ascii := "'"%char.
(* s.split on the double quote *)
Fixpoint split_dq (s : string) : list string :=
  match s with
  | "" => [""]
  | String c r =>
      if Ascii.eqb c dq then "" :: split_dq r
      else match split_dq r with x :: t => String c x :: t | [] => [String c ""] end
  end.
(* string_to_source: a quote character that does not occur in the string, else a parenthesised
   concatenation of the pieces between its double quotes *)
Definition string_to_source (s : string) : string :=
  if negb (has_char dq s) then String dq s +++ String dq ""
  else if negb (has_char sq s) then String sq s +++ String sq ""
  else "(" +++ sjoin (" + '" +++ String dq "' + ")
                (map (fun p => String dq p +++ String dq "") (split_dq s)) +++ ")".

Definition record_key_impl (key : string) : string :=
  if is_valid_identifier key then key
  else if has_char dq key && has_char sq key then "[" +++ string_to_source key +++ "]"
  else string_to_source key.

Definition binop_index (op : binop) : nat :=
  match op with
  | Add => 0 | Subtract => 1 | Multiply => 2 | Divide => 3 | Modulo => 4 | Power => 5
  | Equal => 6 | NotEqual => 7 | Less => 8 | LessEq => 9 | Greater => 10 | GreaterEq => 11
  | DotEqual => 12 | DotNotEqual => 13 | DotLess => 14 | DotLessEq => 15 | DotGreater => 16
  | DotGreaterEq => 17 | And => 18 | NaturalAnd => 19 | Or => 20 | NaturalOr => 21
  | Via => 22 | Into => 23 | Where => 24 | Coalesce => 25
  end.

Section Parens.
  (* operator_info: (precedence, is right-associative) per operator, in binop_index order *)
  Variable opinfo : list (nat * bool).
  Definition op_prec (op : binop) : nat := fst (nth (binop_index op) opinfo (0, false)).
  Definition op_right (op : binop) : bool := snd (nth (binop_index op) opinfo (0, false)).

  Definition PREFIX_LEVEL : nat := 253.
  Definition POSTFIX_LEVEL : nat := 254.
  Definition PRIMARY_LEVEL : nat := 255.
  Definition binding_level (e : expr) : nat :=
    match e with
    | EBin op _ _ => op_prec op
    | EUn _ _ | ESpread _ => PREFIX_LEVEL
    | EFact _ | ECall _ _ | EAccess _ _ | EDot _ _ => POSTFIX_LEVEL
    | _ => PRIMARY_LEVEL
    end.

  Inductive tailk := TClosed | TLambda | TGreedy.
  Definition tailk_eqb (a b : tailk) : bool :=
    match a, b with TClosed, TClosed | TLambda, TLambda | TGreedy, TGreedy => true | _, _ => false end.

  (* needs_parens_in_binop given the child's binding level and tail *)
  Definition npb_of (op : binop) (level : nat) (t : tailk) (is_left : bool) : bool :=
    (level <? op_prec op)%nat
    || ((level =? op_prec op)%nat && Bool.eqb is_left (op_right op))
    || (is_left && match t with
                   | TClosed => false
                   | TLambda => negb (is_via_like op)
                   | TGreedy => true
                   end).
  Definition npu_of (level : nat) : bool := (level <? PREFIX_LEVEL)%nat.

  (* (tail e, lambda_body_needs_parens e), by mutual structural recursion *)
  Fixpoint tail_lbp (e : expr) : tailk * bool :=
    match e with
    | ELam _ body =>
        let (tb, lb) := tail_lbp body in
        (if lb then TLambda else if negb (tailk_eqb tb TGreedy) then TLambda else TGreedy, false)
    | ECond _ _ _ | EAssign _ _ | EOutput _ => (TGreedy, false)
    | EBin op l r =>
        let (tl_, ll) := tail_lbp l in
        let (tr, lr) := tail_lbp r in
        let npl := npb_of op (binding_level l) tl_ true in
        let npr := npb_of op (binding_level r) tr false in
        (if negb npr then tr else TClosed,
         is_via_like op || (negb npl && ll) || (negb npr && lr))
    | EUn _ x =>
        let (tx, lx) := tail_lbp x in
        let npu := npu_of (binding_level x) in
        (if negb npu then tx else TClosed, negb npu && lx)
    | _ => (TClosed, false)
    end.
  Definition tail_of (e : expr) : tailk := fst (tail_lbp e).
  Definition lambda_body_parens_impl (e : expr) : bool := snd (tail_lbp e).
  Definition needs_parens_impl (op : binop) (child : expr) (is_left : bool) : bool :=
    npb_of op (binding_level child) (tail_of child) is_left.
  Definition unary_parens_impl (child : expr) : bool := npu_of (binding_level child).
  Definition postfix_parens_impl (child : expr) : bool :=
    (binding_level child <? POSTFIX_LEVEL)%nat || negb (tailk_eqb (tail_of child) TClosed).
End Parens.

(* protect_leading_minus on strings *)
Definition protect_minus_str (s : string) (is_first : bool) : string :=
  if negb is_first && starts_with_minus s then "(" +++ s +++ ")" else s.

Section E2S.
  Variable num_text : num -> string.                 (* f64 Display / {:.0} : library, table-fed *)
  Variable opinfo : list (nat * bool).
  Local Notation np := (needs_parens_impl opinfo).
  Local Notation parens_if := (fun (b : bool) (s : string) => if b then "(" +++ s +++ ")" else s).

  Fixpoint e2s_impl (e : expr) : string :=
    match e with
    | ENum x => num_text x
    | EStr s => string_to_source s
    | EBool b => if b then "true" else "false"
    | ENull => "null"
    | EId x => x
    | EInRef x => "#" +++ x
    | EBuiltin b => builtin_name b
    | EList items => "[" +++ sjoin ", " (map (fun c => e2s_impl (cnode c)) items) +++ "]"
    | ERec entries =>
        "{" +++ sjoin ", "
          (map (fun c => match cnode c with
                         | REntry (KStatic key) v => record_key_impl key +++ ": " +++ e2s_impl v
                         | REntry (KDyn ke) v => "[" +++ e2s_impl ke +++ "]: " +++ e2s_impl v
                         | REntry (KShort name) _ => name
                         | REntry (KSpread x) _ => e2s_impl x
                         end) entries) +++ "}"
    | ELam args body =>
        "(" +++ sjoin ", " (map lambda_arg_to_str args) +++ ") => " +++
        parens_if (lambda_body_parens_impl opinfo body) (e2s_impl body)
    | ECond c t f => "if " +++ e2s_impl c +++ " then " +++ e2s_impl t +++ " else " +++ e2s_impl f
    | EDo stmts (Cm rl rn _) =>
        "do {" +++
        (fix go (l : list (commented expr)) (first : bool) : string :=
           match l with
           | [] => ""
           | Cm lead n tr :: r =>
               String.concat "" (map (fun c => nl +++ "  " +++ c) lead) +++
               nl +++ "  " +++ protect_minus_str (e2s_impl n) first +++
               (match tr with Some t => "  " +++ t | None => "" end) +++ go r false
           end) stmts true +++
        String.concat "" (map (fun c => nl +++ "  " +++ c) rl) +++
        nl +++ "  return " +++ e2s_impl rn +++ nl +++ "}"
    | EAssign x v => x +++ " = " +++ e2s_impl v
    | EOutput x => "output " +++ e2s_impl x
    | ECall f args =>
        parens_if (postfix_parens_impl opinfo f) (e2s_impl f)
        +++ "(" +++ sjoin ", " (map e2s_impl args) +++ ")"
    | EAccess a i => parens_if (postfix_parens_impl opinfo a) (e2s_impl a) +++ "[" +++ e2s_impl i +++ "]"
    | EDot a f => parens_if (postfix_parens_impl opinfo a) (e2s_impl a) +++ "." +++ f
    | EBin op l r =>
        parens_if (np op l true) (e2s_impl l) +++ " " +++ binary_op_str op +++ " " +++
        parens_if (np op r false) (e2s_impl r)
    | EUn op a => unary_op_str op +++ parens_if (unary_parens_impl opinfo a) (e2s_impl a)
    | EFact a => parens_if (postfix_parens_impl opinfo a) (e2s_impl a) +++ "!"
    | ESpread a => "..." +++ e2s_impl a
    end.
End E2S.

Definition num_text_tbl (tbl : list (Z * string)) (x : num) : string :=
  let b := bits_of_num x in
  match find (fun kv => Z.eqb (fst kv) b) tbl with Some kv => snd kv | None => "?" end.

(* ------------------------------------------------------------------ running the model *)
Definition oracles_impl (fixed : bool) (opinfo : list (nat * bool)) (ntbl : list (Z * string)) : oracles :=
  Oracles (e2s_impl (num_text_tbl ntbl) opinfo) (needs_parens_impl opinfo) record_key_impl
          (postfix_parens_impl opinfo) (lambda_body_parens_impl opinfo) (unary_parens_impl opinfo) fixed.

Section Run.
  Variable fixed : bool.          (* true: /repo as it is (ff5578e); false: before fixes/C09-nested-comments.diff *)
  Variable opinfo : list (nat * bool).
  Variable ntbl : list (Z * string).
  Definition run_lib (width : option nat) (p : list stmt) : option doc :=
    format_lib (oracles_impl fixed opinfo ntbl) width p.
  Definition run_cli (p : list stmt) : doc := format_cli (oracles_impl fixed opinfo ntbl) p.
End Run.

(* "<hex text> <shown comments> <comments under opaquely printed expressions>" *)
Definition show_doc (d : doc) : string :=
  hex_of_string (render d) +++ " " +++ sjoin "," (map hex_of_string (doc_comments d)) +++ " " +++
  sjoin "," (map hex_of_string (flat_map expr_comments (doc_opaque d))).
Definition show_odoc (o : option doc) : string :=
  match o with Some d => "OK " +++ show_doc d | None => "EMPTY" end.

(* positions (start_line, end_line) of the statements in the text the library driver emits *)
Definition show_positions (l : list (doc * Z * Z)) : string :=
  sjoin "," (map (fun x => hex16 (snd (fst x)) +++ ":" +++ hex16 (snd x)) l).

(* ATTACH stream printers (items are index strings) *)
Definition show_opt (o : option string) : string :=
  match o with Some t => hex_of_string t | None => "-" end.
Definition show_citem (c : commented string) : string :=
  sjoin "." (map hex_of_string (cleading c)) +++ ":" +++ cnode c +++ ":" +++ show_opt (ctrailing c).
Definition show_citems (l : list (commented string)) : string := sjoin ";" (map show_citem l).
Definition show_lpairs (l : list (lpair string)) : string :=
  sjoin "," (map (fun p => match p with
                           | PComment c => "C:" +++ hex_of_string c
                           | PItem x eol => "I:" +++ x +++ ":" +++ show_opt eol
                           end) l).
Definition show_dpairs (l : list (dpair string)) : string :=
  sjoin "," (map (fun p => match p with
                           | DComment c => "C:" +++ hex_of_string c
                           | DStmt x tr => "S:" +++ x +++ ":" +++ show_opt tr
                           end) l).
Definition show_do (r : list (commented string) * commented string) : string :=
  show_citems (fst r) +++ "|" +++ show_citem (snd r).
