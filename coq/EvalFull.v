(* EvalFull.v — the evaluator instantiated with EVERY transcribed built-in (BuiltinsHof.v,
   BuiltinsList.v of C14, BuiltinsAgg.v of C15), used by the EVAL correspondence streams so that
   generated programs may use them.  The evaluator theorems (Properties/C02-C04, C13, C18) are
   stated for EvalInst.builtin_impl (the callback-taking and simple built-ins) or for every
   implementation; the built-ins added here have their own theorems in Properties/C14.v, C15.v. *)
From Coq Require Import String List ZArith Bool.
Require Import Blots.Num Blots.gen.Builtins Blots.Ast Blots.Value Blots.Outcome Blots.Binop
               Blots.Env Blots.Eval Blots.BuiltinsHof Blots.Program Blots.EvalInst.
Require Blots.BuiltinsList Blots.BuiltinsAgg Blots.BuiltinsText.
Import ListNotations.

Definition builtin_full (call : callback) (b : builtin) : list value -> store -> outcome value * store :=
  match b with
  | B_min => pure_bi BuiltinsAgg.bi_min
  | B_max => pure_bi BuiltinsAgg.bi_max
  | B_avg => pure_bi BuiltinsAgg.bi_avg
  | B_sum => pure_bi BuiltinsAgg.bi_sum
  | B_prod => pure_bi BuiltinsAgg.bi_prod
  | B_median => pure_bi BuiltinsAgg.bi_median
  | B_percentile => pure_bi BuiltinsAgg.bi_percentile
  | B_dot => pure_bi BuiltinsAgg.bi_dot
  | B_range => pure_bi BuiltinsList.bi_range
  | B_len => pure_bi BuiltinsList.bi_len
  | B_head => pure_bi BuiltinsList.bi_head
  | B_tail => pure_bi BuiltinsList.bi_tail
  | B_slice => pure_bi BuiltinsList.bi_slice
  | B_concat => pure_bi BuiltinsList.bi_concat
  | B_unique => pure_bi BuiltinsList.bi_unique
  | B_sort => pure_bi BuiltinsList.bi_sort
  | B_reverse => pure_bi BuiltinsList.bi_reverse
  | B_split => pure_bi BuiltinsList.bi_split
  | B_replace => pure_bi BuiltinsList.bi_replace
  | B_includes => pure_bi BuiltinsList.bi_includes
  | B_keys => pure_bi BuiltinsList.bi_keys
  | B_values => pure_bi BuiltinsList.bi_values
  | B_entries => pure_bi BuiltinsList.bi_entries
  | B_flatten => pure_bi BuiltinsList.bi_flatten
  | B_zip => pure_bi BuiltinsList.bi_zip
  | B_chunk => pure_bi BuiltinsList.bi_chunk
  | B_convert => pure_bi BuiltinsText.bi_convert
  | B_round => pure_bi BuiltinsText.bi_round
  | B_random => pure_bi BuiltinsText.bi_random
  | B_to_number => pure_bi BuiltinsText.bi_to_number
  | B_to_string => pure_bi BuiltinsText.bi_to_string
  | B_join => pure_bi BuiltinsText.bi_join_full
  | B_sort_by => BuiltinsList.bi_sort_by store call
  | B_group_by => BuiltinsList.bi_group_by store call
  | B_count_by => BuiltinsList.bi_count_by store call
  | _ => builtin_impl call b
  end.

Definition eval_full := eval_top true binop_impl builtin_full.
Definition run_program_full (inputs : list (string * value)) (prog : list stmt) : string :=
  show_run (run eval_full (init_session inputs) prog).
Definition run_session_full (stop : bool) (inputs : list (string * value)) (prog : list stmt) : string :=
  show_trace (run_trace eval_full stop (init_session inputs) prog).
