(* Num.v — the number model: IEEE-754 binary64 as Coq.Floats.SpecFloat.spec_float.
   Definitions only (no proofs).  Axiom-free: nothing here uses primitive floats or
   FloatAxioms.  Every operation Rust performs on f64 on a modelled path is here:
   + - * / (SFadd..), % (exact fmod), comparisons, floor/ceil/trunc/round,
   `as i64/u64/usize/i32` (saturating casts), `i64 as f64` (round to nearest even). *)
From Coq Require Import ZArith Floats.SpecFloat Bool List String Ascii.
Import ListNotations.
Open Scope Z_scope.

Definition num := spec_float.
Definition prec := 53.
Definition emax := 1024.

Definition nnan : num := S754_nan.
Definition npinf : num := S754_infinity false.
Definition nninf : num := S754_infinity true.
Definition nzero : num := S754_zero false.
Definition nnzero : num := S754_zero true.

Definition nadd := SFadd prec emax.
Definition nsub := SFsub prec emax.
Definition nmul := SFmul prec emax.
Definition ndiv := SFdiv prec emax.
Definition nsqrt := SFsqrt prec emax.
Definition nneg := SFopp.
Definition nabs := SFabs.
Definition ncmp := SFcompare.       (* None iff a NaN is involved; -0 = +0 *)
Definition neqb := SFeqb.           (* f64 ==  *)
Definition nltb := SFltb.
Definition nleb := SFleb.
Definition ngtb (a b : num) := SFltb b a.
Definition ngeb (a b : num) := SFleb b a.

Definition is_nan (x : num) : bool := match x with S754_nan => true | _ => false end.
Definition is_finite (x : num) : bool :=
  match x with S754_finite _ _ _ | S754_zero _ => true | _ => false end.
Definition is_inf (x : num) : bool := match x with S754_infinity _ => true | _ => false end.
Definition nsign (x : num) : bool :=
  match x with S754_zero s | S754_infinity s | S754_finite s _ _ => s | S754_nan => false end.

(* exact integer -> nearest double (ties to even): Rust `n as f64` for integer n *)
Definition num_of_Z (z : Z) : num := binary_normalize prec emax z 0 false.
(* magnitude n with explicit sign (keeps -0) *)
Definition num_of_sm (s : bool) (n : Z) : num :=
  match n with
  | Z0 => S754_zero s
  | Zpos p => binary_round prec emax s p 0
  | Zneg p => binary_round prec emax (negb s) p 0
  end.

(* m * 2^e as an exact dyadic -> nearest double *)
Definition num_of_dyadic (s : bool) (m : Z) (e : Z) : num :=
  match m with
  | Z0 => S754_zero s
  | Zpos p => binary_round prec emax s p e
  | Zneg p => binary_round prec emax (negb s) p e
  end.

(* ---------- bit patterns (canonical representations assumed) ---------- *)
Definition num_of_bits (b : Z) : num :=
  let s := Z.testbit b 63 in
  let e := (b / 2^52) mod 2^11 in
  let m := b mod 2^52 in
  if e =? 2047 then (if m =? 0 then S754_infinity s else S754_nan)
  else if e =? 0 then
    match m with Zpos p => S754_finite s p (-1074) | _ => S754_zero s end
  else
    match m + 2^52 with Zpos p => S754_finite s p (e - 1075) | _ => S754_nan end.

Definition sign_bit (s : bool) : Z := if s then 2^63 else 0.
Definition bits_of_num (x : num) : Z :=
  match x with
  | S754_nan => 0x7ff8000000000000
  | S754_infinity s => sign_bit s + 0x7ff0000000000000
  | S754_zero s => sign_bit s
  | S754_finite s m e =>
      if Zpos m <? 2^52 then sign_bit s + Zpos m
      else sign_bit s + (e + 1075) * 2^52 + (Zpos m - 2^52)
  end.

(* ---------- integer part helpers ---------- *)
(* integral part and "has fractional part / is at least half" of |x| for finite x *)
Definition split_int (m : positive) (e : Z) : Z * Z * Z :=
  (* returns (q, r, d) with m*2^e = q + r/2^d, 0 <= r < 2^d  (d = 0, r = 0 when e >= 0) *)
  if 0 <=? e then (Zpos m * 2^e, 0, 0)
  else let d := - e in (Zpos m / 2^d, Zpos m mod 2^d, d).

Definition ntrunc (x : num) : num :=
  match x with
  | S754_finite s m e => let '(q, _, _) := split_int m e in num_of_sm s q
  | _ => x
  end.
Definition nfloor (x : num) : num :=
  match x with
  | S754_finite s m e =>
      let '(q, r, _) := split_int m e in
      if s then num_of_sm true (if r =? 0 then q else q + 1) else num_of_sm false q
  | _ => x
  end.
Definition nceil (x : num) : num :=
  match x with
  | S754_finite s m e =>
      let '(q, r, _) := split_int m e in
      if s then num_of_sm true q else num_of_sm false (if r =? 0 then q else q + 1)
  | _ => x
  end.
(* f64::round: half away from zero *)
Definition nround (x : num) : num :=
  match x with
  | S754_finite s m e =>
      let '(q, r, d) := split_int m e in
      num_of_sm s (if (2 * r >=? 2^d) && negb (d =? 0) then q + 1 else q)
  | _ => x
  end.
(* fract() == 0.0 : true for integral finite values; inf.fract() is NaN, NaN.fract() NaN *)
Definition nfract_is_zero (x : num) : bool :=
  match x with
  | S754_zero _ => true
  | S754_finite _ m e => let '(_, r, _) := split_int m e in r =? 0
  | _ => false
  end.

(* truncated integer value of a finite number *)
Definition Z_of_num_trunc (x : num) : option Z :=
  match x with
  | S754_zero _ => Some 0
  | S754_finite s m e => let '(q, _, _) := split_int m e in Some (if s then - q else q)
  | _ => None
  end.

Definition clamp (lo hi z : Z) : Z := if z <? lo then lo else if hi <? z then hi else z.
(* Rust saturating float->int casts *)
Definition cast_int (lo hi : Z) (x : num) : Z :=
  match x with
  | S754_nan => 0
  | S754_infinity s => if s then lo else hi
  | _ => match Z_of_num_trunc x with Some z => clamp lo hi z | None => 0 end
  end.
Definition I64_MIN := - 2^63.
Definition I64_MAX := 2^63 - 1.
Definition U64_MAX := 2^64 - 1.
Definition U32_MAX := 2^32 - 1.
Definition as_i64 := cast_int I64_MIN I64_MAX.
Definition as_u64 := cast_int 0 U64_MAX.
Definition as_usize := cast_int 0 U64_MAX.
Definition as_i32 := cast_int (- 2^31) (2^31 - 1).

(* ---------- exact fmod (Rust `%` on f64 = C fmod) ---------- *)
Definition nfmod (x y : num) : num :=
  match x, y with
  | S754_nan, _ | _, S754_nan => S754_nan
  | S754_infinity _, _ => S754_nan
  | _, S754_zero _ => S754_nan
  | S754_zero _, _ => x
  | _, S754_infinity _ => x
  | S754_finite sx mx ex, S754_finite _ my ey =>
      let e := Z.min ex ey in
      let X := Zpos mx * 2^(ex - e) in
      let Y := Zpos my * 2^(ey - e) in
      num_of_dyadic sx (X mod Y) e
  end.

(* f64::min / f64::max (IEEE minNum/maxNum as Rust implements them: NaN loses) *)
Definition nmin (a b : num) : num :=
  if is_nan a then b else if is_nan b then a else if nltb b a then b else a.
Definition nmax (a b : num) : num :=
  if is_nan a then b else if is_nan b then a else if nltb a b then b else a.

(* ---------- text helpers shared by all show functions ---------- *)
Definition hexdigit (n : Z) : ascii :=
  match n with
  | 0 => "0" | 1 => "1" | 2 => "2" | 3 => "3" | 4 => "4" | 5 => "5" | 6 => "6" | 7 => "7"
  | 8 => "8" | 9 => "9" | 10 => "a" | 11 => "b" | 12 => "c" | 13 => "d" | 14 => "e" | _ => "f"
  end%char.
Fixpoint hexn (n : nat) (z : Z) (acc : string) : string :=
  match n with
  | O => acc
  | S n' => hexn n' (z / 16) (String (hexdigit (z mod 16)) acc)
  end.
Definition hex16 (z : Z) : string := hexn 16 z EmptyString.
Definition show_num (x : num) : string := hex16 (bits_of_num x).

Definition hexval (c : ascii) : Z :=
  let n := Z.of_nat (nat_of_ascii c) in
  if (48 <=? n) && (n <=? 57) then n - 48
  else if (97 <=? n) && (n <=? 102) then n - 87
  else if (65 <=? n) && (n <=? 70) then n - 55 else 0.
(* decode a hex string into raw bytes *)
Fixpoint hx (s : string) : string :=
  match s with
  | String a (String b r) =>
      String (ascii_of_nat (Z.to_nat (hexval a * 16 + hexval b))) (hx r)
  | _ => EmptyString
  end.
Fixpoint hex_of_string (s : string) : string :=
  match s with
  | EmptyString => EmptyString
  | String c r =>
      let n := Z.of_nat (nat_of_ascii c) in
      String (hexdigit (n / 16)) (String (hexdigit (n mod 16)) (hex_of_string r))
  end.
