(* Pratt.v — definitions only.
   1. build_table: blots-core/src/precedence.rs::build_pratt_parser + pest 2.8.3
      PrattParser::{new, op} transcribed over the GENERATED rows (gen/PrecTable.v).
   2. pexpr / ploop / primary / parse_items: pest 2.8.3 pratt_parser.rs
      PrattParserMap::{parse, expr, nud, led, lbp} and blots-core/src/expressions.rs
      pairs_to_expr_inner (preserve_comments = false, i.e. pairs_to_expr) transcribed over the
      item list of PrattTypes.v, as a function with fuel.
   3. Expr / Loop / Prim / ...: the same as inductive relations (successful parses only).

   Outcomes.  Rust's `T` is AnyhowResult<SpannedExpr>: an Err produced by a closure is a VALUE
   that the Pratt loop keeps carrying (it does not stop consuming pairs); a panic
   (expect / unreachable! / panic! in pest) aborts.  So the functions return
   `outcome (option expr * …)`: `Ok (Some e)` = Ok(e), `Ok None` = Err(_), `Panic` = abort,
   `Unmodelled` = the model's fuel ran out (not a behaviour of the code; the theorems show it
   does not happen for large enough fuel, the correspondence counts it and it must be 0). *)
From Coq Require Import String List Bool Arith.
Require Import Blots.Num Blots.gen.Builtins Blots.Ast Blots.Outcome Blots.PrattTypes Blots.gen.PrecTable.
Import ListNotations.
Local Open Scope nat_scope.
Local Open Scope list_scope.

(* ------------------------------------------------------------------ 1. the table *)
Definition group := (nat * assoc * list oprule)%type.

(* `if let Some(group) = precedence_groups.iter_mut().find(|(p, a, _)| *p == prec && *a == assoc)
      { group.2.push(rule) } else { precedence_groups.push((prec, assoc, vec![rule])) }` *)
Fixpoint add_to_groups (gs : list group) (p : nat) (a : assoc) (r : oprule) : list group :=
  match gs with
  | [] => [(p, a, [r])]
  | (p', a', rs) :: gs' =>
      if Nat.eqb p' p && assoc_eqb a' a then (p', a', rs ++ [r]) :: gs'
      else (p', a', rs) :: add_to_groups gs' p a r
  end.
Definition groups_of_rows (rows : list (nat * assoc * binop * oprule)) : list group :=
  fold_left (fun gs row => match row with (p, a, _, r) => add_to_groups gs p a r end) rows [].

(* `precedence_groups.sort_by_key(|(prec, _, _)| *prec)`: slice::sort_by_key is stable *)
Definition gkey (g : group) : nat := fst (fst g).
Fixpoint insert_group (g : group) (l : list group) : list group :=
  match l with
  | [] => [g]
  | h :: t => if Nat.ltb (gkey g) (gkey h) then g :: h :: t else h :: insert_group g t
  end.
Definition sort_groups (gs : list group) : list group :=
  fold_left (fun acc g => insert_group g acc) gs [].

(* BTreeMap::insert: replaces the value of an existing key *)
Fixpoint map_insert {A} (r : oprule) (v : A) (m : list (oprule * A)) : list (oprule * A) :=
  match m with
  | [] => [(r, v)]
  | (k, w) :: m' => if oprule_eqb k r then (k, v) :: m' else (k, w) :: map_insert r v m'
  end.

Definition ops_map := list (oprule * (affix * nat)).

(* PrattParser::op: `self.prec += PREC_STEP; for each Op of the chain: self.ops.insert(rule, (affix, self.prec))` *)
Definition pp_op (step : nat) (st : nat * ops_map) (chain : list (oprule * affix)) : nat * ops_map :=
  let p := fst st + step in
  (p, fold_left (fun m ra => map_insert (fst ra) (snd ra, p) m) chain (snd st)).

(* build_pratt_parser: PrattParser::new() has prec = PREC_STEP; one .op per sorted infix group
   (`Op::infix(rules[0], assoc) | Op::infix(rule, assoc) ...`), then the prefix / postfix chains *)
Definition build_table (rows : list (nat * assoc * binop * oprule)) (chains : list (list (oprule * affix)))
           (step : nat) : ops_map :=
  let infix_chains :=
      map (fun g : group => map (fun r => (r, Infix (snd (fst g)))) (snd g))
          (sort_groups (groups_of_rows rows)) in
  snd (fold_left (pp_op step) (infix_chains ++ chains) (step, [])).

Definition impl_table : ops_map := build_table prec_rows op_chains prec_step.

(* operator_info (the printer's view of the same rows): first row whose BinaryOp matches *)
Fixpoint operator_info_of (rows : list (nat * assoc * binop * oprule)) (o : binop) : option (nat * assoc) :=
  match rows with
  | [] => None
  | (p, a, b, _) :: rows' => if binop_eqb b o then Some (p, a) else operator_info_of rows' o
  end.

(* ------------------------------------------------------------------ 2. the parser, with fuel *)
Definition tres := option expr.                     (* AnyhowResult<SpannedExpr> *)

Definition omapM {A B} (f : A -> outcome (option B)) : list A -> outcome (option (list B)) :=
  fix go (l : list A) : outcome (option (list B)) :=
    match l with
    | [] => Ok (Some [])
    | x :: r =>
        do y <- f x;
        match y with
        | None => Ok None                           (* `?` / collect::<Result<_>>: stops at the first Err *)
        | Some y' => do ys <- go r; Ok (option_map (cons y') ys)
        end
    end.

(* The element loops of map_primary's list / record / do_block arms (preserve_comments = false),
   over the function that converts one nested token stream. *)
Definition uncommented {A} (x : A) : commented A := Cm [] x None.   (* Commented::new / no comments kept *)

Section Loops.
  Variable parse : list item -> outcome tres.

  (* `for pair in list_pairs { comment => (ignored) ; list_item => elements.push(…?) }` *)
  Fixpoint list_loop (els : list lelem) : outcome (option (list (commented expr))) :=
    match els with
    | [] => Ok (Some [])
    | LCom _ :: els' => list_loop els'
    | LItem g _ :: els' =>
        do e <- parse g;
        match e with
        | None => Ok None
        | Some e' => do r <- list_loop els'; Ok (option_map (cons (uncommented e')) r)
        end
    end.

  Definition key_of (k : rkeyi) : outcome (option rkey) :=
    match k with
    | RKId s | RKStr s => Ok (Some (KStatic s))
    | RKDyn inner => do d <- parse inner; Ok (option_map KDyn d)
    end.

  Fixpoint rec_loop (els : list relem) : outcome (option (list (commented rentry))) :=
    match els with
    | [] => Ok (Some [])
    | RCom _ :: els' => rec_loop els'
    | RPairI k v _ :: els' =>
        do key <- key_of k;
        match key with
        | None => Ok None
        | Some key' =>
            do val <- parse v;
            match val with
            | None => Ok None
            | Some val' =>
                do r <- rec_loop els'; Ok (option_map (cons (uncommented (REntry key' val'))) r)
            end
        end
    | RShortI s _ :: els' =>
        do r <- rec_loop els'; Ok (option_map (cons (uncommented (REntry (KShort s) ENull))) r)
    | RSpreadI g _ :: els' =>
        do e <- parse g;
        match e with
        | None => Ok None
        | Some e' =>
            do r <- rec_loop els'; Ok (option_map (cons (uncommented (REntry (KSpread e') ENull))) r)
        end
    end.

  (* statements: Vec, return_expr starts as Commented::new(dummy Null), the last return_statement wins *)
  Fixpoint do_loop (els : list delem) (stmts : list (commented expr)) (ret : commented expr)
    : outcome tres :=
    match els with
    | [] => Ok (Some (EDo stmts ret))
    | DStmt g _ :: els' =>
        do e <- parse g;
        match e with
        | None => Ok None
        | Some e' => do_loop els' (stmts ++ [uncommented e']) ret
        end
    | DComStmt _ _ :: els' => do_loop els' stmts ret
    | DCom _ :: els' => do_loop els' stmts ret
    | DRet g :: els' =>
        do e <- parse g;
        match e with
        | None => Ok None
        | Some e' => do_loop els' stmts (uncommented e')
        end
    end.
End Loops.

Section Parser.
  Variable tbl : ops_map.
  Variable imap : list (oprule * binop).            (* .map_infix arms *)
  Variable pmap : list (oprule * prefix_ctor).      (* .map_prefix arms *)

  Definition ops_get (r : oprule) : option (affix * nat) := assoc_find r tbl.

  (* lbp: `match pairs.peek() { Some(pair) => match ops.get(rule) { Some((_, prec)) => *prec,
            None => panic!("Expected operator…") }, None => 0 }` *)
  Definition lbp (its : list item) : outcome nat :=
    match its with
    | [] => Ok 0
    | pr0 :: _ =>
        match item_op pr0 with
        | Some r => match ops_get r with Some (_, p) => Ok p | None => Panic end
        | None => Panic
        end
    end.

  (* .map_prefix(|op, rhs| …) *)
  Definition map_prefix (r : oprule) (rhs : tres) : outcome tres :=
    match assoc_find r pmap with
    | Some (PUn u) => Ok (option_map (EUn u) rhs)
    | Some PSpread => Ok (option_map ESpread rhs)
    | None => Panic                                  (* unreachable!() *)
    end.

  (* .map_infix(|lhs, op, rhs| …): op_type is computed first, then lhs?, rhs? *)
  Definition map_infix (lhs : tres) (r : oprule) (rhs : tres) : outcome tres :=
    match assoc_find r imap with
    | Some o => Ok (match lhs, rhs with Some l, Some x => Some (EBin o l x) | _, _ => None end)
    | None => Panic                                  (* unreachable!() *)
    end.

  Fixpoint pexpr (fuel rbp : nat) (its : list item) {struct fuel} : outcome (tres * list item) :=
    match fuel with
    | O => Unmodelled
    | S f =>
        (* nud *)
        match its with
        | [] => Panic                                (* expect("Pratt parsing expects non-empty Pairs") *)
        | pr0 :: rest =>
            do lr <-
               match item_op pr0 with
               | Some r =>
                   match ops_get r with
                   | Some (Prefix, p) =>
                       do rr <- pexpr f (p - 1) rest;
                       do e <- map_prefix r (fst rr);
                       Ok (e, snd rr)
                   | Some _ => Panic                 (* "Expected prefix or primary expression" *)
                   | None => Panic                   (* (self.primary)(pair): `_ => unreachable!` *)
                   end
               | None => do e <- primary f pr0; Ok (e, rest)
               end;
            ploop f rbp (fst lr) (snd lr)
        end
    end
  (* `while rbp < self.lbp(pairs) { lhs = self.led(pairs, lhs) }` *)
  with ploop (fuel rbp : nat) (lhs : tres) (its : list item) {struct fuel} : outcome (tres * list item) :=
    match fuel with
    | O => Unmodelled
    | S f =>
        do l <- lbp its;
        if Nat.ltb rbp l then
          match its with
          | [] => Panic                              (* not reachable: lbp [] = 0 *)
          | pr0 :: rest =>
              match item_op pr0 with
              | Some r =>
                  match ops_get r with
                  | Some (Infix a, p) =>
                      do rr <- pexpr f (match a with ALeft => p | ARight => p - 1 end) rest;
                      do e <- map_infix lhs r (fst rr);
                      ploop f rbp e (snd rr)
                  | Some (Postfix, _) =>
                      do e <- map_postfix f lhs pr0;
                      ploop f rbp e rest
                  | _ => Panic                       (* "Expected postfix or infix expression" *)
                  end
              | None => Panic
              end
          end
        else Ok (lhs, its)
    end
  (* .map_postfix(|lhs, op| …): the inner pairs are converted first, then `lhs?` *)
  with map_postfix (fuel : nat) (lhs : tres) (pr0 : item) {struct fuel} : outcome tres :=
    match fuel with
    | O => Unmodelled
    | S f =>
        match pr0 with
        | IOp R_factorial => Ok (option_map EFact lhs)
        | IAccess inner =>
            do i <- parse_items f inner;
            Ok (match i, lhs with Some i', Some l => Some (EAccess l i') | _, _ => None end)
        | IDot fld => Ok (option_map (fun l => EDot l fld) lhs)
        | ICall args =>
            do a <- omapM (parse_items f) args;
            Ok (match a, lhs with Some a', Some l => Some (ECall l a') | _, _ => None end)
        | _ => Panic                                 (* unreachable!() / empty inner pairs *)
        end
    end
  (* .map_primary(|primary| …) *)
  with primary (fuel : nat) (pr0 : item) {struct fuel} : outcome tres :=
    match fuel with
    | O => Unmodelled
    | S f =>
        match pr0 with
        | INum x => Ok (Some (ENum x))
        | IBadNum => Ok None
        | IStr s => Ok (Some (EStr s))
        | IBool b => Ok (Some (EBool b))
        | INull => Ok (Some ENull)
        | IIdent s =>
            Ok (Some (match builtin_of_name s with Some b => EBuiltin b | None => EId s end))
        | IInRef s => Ok (Some (EInRef s))
        | IExpr _ g => parse_items f g
        | IList els => do r <- list_loop (parse_items f) els; Ok (option_map EList r)
        | IRecord els => do r <- rec_loop (parse_items f) els; Ok (option_map ERec r)
        | ILambda args body =>
            do b <- parse_items f body; Ok (option_map (ELam args) b)
        | ICond c t e =>
            do c' <- parse_items f c;
            match c' with
            | None => Ok None
            | Some c'' =>
                do t' <- parse_items f t;
                match t' with
                | None => Ok None
                | Some t'' => do e' <- parse_items f e; Ok (option_map (ECond c'' t'') e')
                end
            end
        | IDo els => do_loop (parse_items f) els [] (uncommented ENull)
        | IAssign x v =>
            do v' <- parse_items f v; Ok (option_map (EAssign x) v')
        | IOp _ | IAccess _ | IDot _ | ICall _ => Panic     (* `_ => unreachable!` *)
        end
    end
  (* pairs_to_expr_inner(pairs, false) = PRATT.map_primary(…)….parse(pairs) = expr(pairs, 0) *)
  with parse_items (fuel : nat) (its : list item) {struct fuel} : outcome tres :=
    match fuel with
    | O => Unmodelled
    | S f => do r <- pexpr f 0 its; Ok (fst r)
    end.
End Parser.

(* ------------------------------------------------------------------ 3. the same, as relations *)
(* Successful conversions only (result Ok(e)): Expr rbp its t rest = `expr(pairs, rbp)` consumes a
   prefix of its, returns Ok(t) and leaves rest; Loop rbp lhs its t rest = the while loop of `expr`
   entered with lhs; Post = one map_postfix call; Prim = one map_primary call; Items =
   pairs_to_expr_inner; Args / LEls / REls / DEls = the element loops. *)
Section Rel.
  Variable tbl : ops_map.
  Variable imap : list (oprule * binop).
  Variable pmap : list (oprule * prefix_ctor).

  Inductive Expr : nat -> list item -> expr -> list item -> Prop :=
  | E_prefix rbp i r p its x mid u t rest :
      item_op i = Some r ->
      ops_get tbl r = Some (Prefix, p) ->
      Expr (p - 1) its x mid ->
      map_prefix pmap r (Some x) = Ok (Some u) ->
      Loop rbp u mid t rest ->
      Expr rbp (i :: its) t rest
  | E_primary rbp i its x t rest :
      item_op i = None -> Prim i x -> Loop rbp x its t rest -> Expr rbp (i :: its) t rest
  with Loop : nat -> expr -> list item -> expr -> list item -> Prop :=
  | L_stop rbp lhs its l : lbp tbl its = Ok l -> l <= rbp -> Loop rbp lhs its lhs its
  | L_infix rbp lhs i r a p its rhs mid u t rest :
      item_op i = Some r -> ops_get tbl r = Some (Infix a, p) -> rbp < p ->
      Expr (match a with ALeft => p | ARight => p - 1 end) its rhs mid ->
      map_infix imap (Some lhs) r (Some rhs) = Ok (Some u) ->
      Loop rbp u mid t rest ->
      Loop rbp lhs (i :: its) t rest
  | L_postfix rbp lhs i r p its u t rest :
      item_op i = Some r -> ops_get tbl r = Some (Postfix, p) -> rbp < p ->
      Post lhs i u -> Loop rbp u its t rest ->
      Loop rbp lhs (i :: its) t rest
  with Post : expr -> item -> expr -> Prop :=
  | Po_fact lhs : Post lhs (IOp R_factorial) (EFact lhs)
  | Po_access lhs inner i : Items inner i -> Post lhs (IAccess inner) (EAccess lhs i)
  | Po_dot lhs f : Post lhs (IDot f) (EDot lhs f)
  | Po_call lhs args es : Args args es -> Post lhs (ICall args) (ECall lhs es)
  with Prim : item -> expr -> Prop :=
  | P_num x : Prim (INum x) (ENum x)
  | P_str s : Prim (IStr s) (EStr s)
  | P_bool b : Prim (IBool b) (EBool b)
  | P_null : Prim INull ENull
  | P_builtin s b : builtin_of_name s = Some b -> Prim (IIdent s) (EBuiltin b)
  | P_ident s : builtin_of_name s = None -> Prim (IIdent s) (EId s)
  | P_inref s : Prim (IInRef s) (EInRef s)
  | P_expr b g t : Items g t -> Prim (IExpr b g) t
  | P_list els es : LEls els es -> Prim (IList els) (EList es)
  | P_rec els es : REls els es -> Prim (IRecord els) (ERec es)
  | P_lam args body b : Items body b -> Prim (ILambda args body) (ELam args b)
  | P_cond c t e c' t' e' : Items c c' -> Items t t' -> Items e e' -> Prim (ICond c t e) (ECond c' t' e')
  | P_do els t : DEls els [] (uncommented ENull) t -> Prim (IDo els) t
  | P_assign x v v' : Items v v' -> Prim (IAssign x v) (EAssign x v')
  with Items : list item -> expr -> Prop :=
  | I_intro its t rest : Expr 0 its t rest -> Items its t
  with Args : list (list item) -> list expr -> Prop :=
  | A_nil : Args [] []
  | A_cons g e gs es : Items g e -> Args gs es -> Args (g :: gs) (e :: es)
  with LEls : list lelem -> list (commented expr) -> Prop :=
  | LE_nil : LEls [] []
  | LE_com s els es : LEls els es -> LEls (LCom s :: els) es
  | LE_item g eol e els es : Items g e -> LEls els es -> LEls (LItem g eol :: els) (uncommented e :: es)
  with REls : list relem -> list (commented rentry) -> Prop :=
  | RE_nil : REls [] []
  | RE_com s els es : REls els es -> REls (RCom s :: els) es
  | RE_pair_id s v eol v' els es :
      Items v v' -> REls els es ->
      REls (RPairI (RKId s) v eol :: els) (uncommented (REntry (KStatic s) v') :: es)
  | RE_pair_str s v eol v' els es :
      Items v v' -> REls els es ->
      REls (RPairI (RKStr s) v eol :: els) (uncommented (REntry (KStatic s) v') :: es)
  | RE_pair_dyn inner k v eol v' els es :
      Items inner k -> Items v v' -> REls els es ->
      REls (RPairI (RKDyn inner) v eol :: els) (uncommented (REntry (KDyn k) v') :: es)
  | RE_short s eol els es :
      REls els es -> REls (RShortI s eol :: els) (uncommented (REntry (KShort s) ENull) :: es)
  | RE_spread g eol e els es :
      Items g e -> REls els es ->
      REls (RSpreadI g eol :: els) (uncommented (REntry (KSpread e) ENull) :: es)
  with DEls : list delem -> list (commented expr) -> commented expr -> expr -> Prop :=
  | DE_nil stmts ret : DEls [] stmts ret (EDo stmts ret)
  | DE_stmt g c e els stmts ret t :
      Items g e -> DEls els (stmts ++ [uncommented e]) ret t -> DEls (DStmt g c :: els) stmts ret t
  | DE_comstmt s c els stmts ret t : DEls els stmts ret t -> DEls (DComStmt s c :: els) stmts ret t
  | DE_com s els stmts ret t : DEls els stmts ret t -> DEls (DCom s :: els) stmts ret t
  | DE_ret g e els stmts ret t :
      Items g e -> DEls els stmts (uncommented e) t -> DEls (DRet g :: els) stmts ret t.
End Rel.

Scheme Expr_mind := Minimality for Expr Sort Prop
  with Loop_mind := Minimality for Loop Sort Prop
  with Post_mind := Minimality for Post Sort Prop
  with Prim_mind := Minimality for Prim Sort Prop
  with Items_mind := Minimality for Items Sort Prop
  with Args_mind := Minimality for Args Sort Prop
  with LEls_mind := Minimality for LEls Sort Prop
  with REls_mind := Minimality for REls Sort Prop
  with DEls_mind := Minimality for DEls Sort Prop.
Combined Scheme parse_rel_mutind from Expr_mind, Loop_mind, Post_mind, Prim_mind, Items_mind,
  Args_mind, LEls_mind, REls_mind, DEls_mind.

(* number of pairs in a token stream, nested ones included; 4 * this + 4 is ample fuel *)
Fixpoint item_size (i : item) : nat :=
  let sz := fix sz (l : list item) : nat := match l with [] => 0 | x :: r => item_size x + sz r end in
  match i with
  | IExpr _ g => 1 + sz g
  | IList els =>
      1 + (fix go (l : list lelem) : nat :=
             match l with [] => 0 | LCom _ :: r => 1 + go r | LItem g _ :: r => 1 + sz g + go r end) els
  | IRecord els =>
      1 + (fix go (l : list relem) : nat :=
             match l with
             | [] => 0
             | RCom _ :: r => 1 + go r
             | RPairI k v _ :: r => 2 + match k with RKDyn inner => sz inner | _ => 0 end + sz v + go r
             | RShortI _ _ :: r => 1 + go r
             | RSpreadI g _ :: r => 1 + sz g + go r
             end) els
  | ILambda _ body => 1 + sz body
  | ICond c t e => 1 + sz c + sz t + sz e
  | IDo els =>
      1 + (fix go (l : list delem) : nat :=
             match l with
             | [] => 0
             | DStmt g _ :: r => 1 + sz g + go r
             | DRet g :: r => 1 + sz g + go r
             | _ :: r => 1 + go r
             end) els
  | IAssign _ v => 1 + sz v
  | IAccess inner => 1 + sz inner
  | ICall args =>
      1 + (fix go (l : list (list item)) : nat := match l with [] => 0 | g :: r => 1 + sz g + go r end) args
  | _ => 1
  end.
Definition items_size (l : list item) : nat := fold_right (fun i n => item_size i + n) 0 l.

(* the parser the crate uses: PRATT + the arms of pairs_to_expr_inner, ample fuel *)
Definition pratt (tbl : ops_map) (its : list item) : outcome tres :=
  parse_items tbl infix_map prefix_map (4 * items_size its + 4) its.
Definition pratt_impl : list item -> outcome tres := pratt impl_table.
