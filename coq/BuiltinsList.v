(* BuiltinsList.v — the list / string / record built-ins, each transcribed from its arm of
   BuiltInFunction::call in blots-core/src/functions.rs.  Definitions only.

   bi_<name> (args : list value) : outcome value   is the arm, applied to the argument
   vector exactly as `call` receives it (the arity check of FunctionDef::call happens
   BEFORE `call` and is not part of these functions; so `args[i]` on a short vector is
   an explicit Panic here, as it is in Rust when `call` is invoked directly).

   Every partial Rust operation on these paths is an explicit Panic: args[i].
   History (all three repaired in /repo, the model follows the repaired code): range used a
   plain i64 subtraction that could overflow (fb5b104: saturating_sub); len/head/tail/slice of a
   string were byte based (264caa1: str::chars()); sort/sort_by handed a comparator that is not a
   total order to slice::sort_by, which may panic (f7e0465: own stable merge sort). *)
From Coq Require Import String Ascii List ZArith Bool.
Require Import Blots.Num Blots.gen.Builtins Blots.Ast Blots.Value Blots.Outcome Blots.Access.
Import ListNotations.
Open Scope list_scope.
Open Scope Z_scope.

(* ---------- argument access and the as_* helpers of values.rs ---------- *)
Definition arg (args : list value) (i : nat) : outcome value :=            (* args[i] *)
  match nth_error args i with Some v => Ok v | None => Panic end.
Definition as_number (v : value) : outcome num := match v with VNum x => Ok x | _ => Err end.
Definition as_string (v : value) : outcome string := match v with VStr s => Ok s | _ => Err end.
Definition as_list (v : value) : outcome (list value) := match v with VList l => Ok l | _ => Err end.
Definition as_record (v : value) : outcome (list (string * value)) :=
  match v with VRec r => Ok r | _ => Err end.
(* get_function_def(value, heap).is_some() *)
Definition is_function (v : value) : bool :=
  match v with VLam _ _ _ _ | VBuiltin _ => true | _ => false end.

Definition num_of_nat (n : nat) : num := num_of_Z (Z.of_nat n).               (* usize as f64 *)
Definition one : num := num_of_Z 1.

(* ---------- str::len (bytes) ---------- *)
Definition str_len (s : string) : nat := String.length s.
(* slice::get(a..b) on a Vec *)
Definition slice_get {A} (l : list A) (a b : Z) : option (list A) :=
  if (a <=? b) && (b <=? Z.of_nat (length l))
  then Some (firstn (Z.to_nat (b - a)) (skipn (Z.to_nat a) l))
  else None.

(* ---------- range ---------- *)
Fixpoint zrange (start : Z) (n : nat) : list Z :=
  match n with O => [] | S k => start :: zrange (start + 1) k end.

Definition range_body (start end_ : num) : outcome value :=
  if ngtb start end_ then Err                              (* start > end *)
  else if negb (is_finite start) || negb (is_finite end_) then Err
  else
    let start_i64 := as_i64 start in
    let end_i64 := as_i64 end_ in
    let length := clamp I64_MIN I64_MAX (end_i64 - start_i64) in    (* end_i64.saturating_sub(start_i64) *)
    if U32_MAX <? length then Err
    else Ok (VList (map (fun e => VNum (num_of_Z e)) (zrange start_i64 (Z.to_nat length)))).

Definition bi_range (args : list value) : outcome value :=
  match args with
  | [VNum start] => range_body nzero start
  | [VNum start; VNum end_] => range_body start end_
  | _ => Err
  end.

(* ---------- len head tail slice: strings through str::chars(), like indexing and spreading ---------- *)
Definition bi_len (args : list value) : outcome value :=
  do a0 <- arg args 0;
  match a0 with
  | VList l => Ok (VNum (num_of_nat (length l)))
  | VStr s => Ok (VNum (num_of_nat (length (chars s))))          (* s.chars().count() *)
  | _ => Err
  end.

Definition bi_head (args : list value) : outcome value :=
  do a0 <- arg args 0;
  match a0 with
  | VList l => Ok (match l with x :: _ => x | [] => VNull end)
  | VStr s => Ok (VStr (match chars s with ch :: _ => ch | [] => EmptyString end))
                                              (* chars().next().map(to_string).unwrap_or_default() *)
  | _ => Err
  end.

Definition bi_tail (args : list value) : outcome value :=
  do a0 <- arg args 0;
  match a0 with
  | VList l => Ok (VList (match slice_get l 1 (Z.of_nat (length l)) with Some t => t | None => [] end))
  | VStr s => Ok (VStr (String.concat EmptyString (tl (chars s))))   (* chars.next(); chars.as_str() *)
  | _ => Err
  end.

Definition bi_slice (args : list value) : outcome value :=
  do a1 <- arg args 1; do start_f <- as_number a1; let start := as_usize start_f in
  do a2 <- arg args 2; do end_f <- as_number a2; let end_ := as_usize end_f in
  do a0 <- arg args 0;
  match a0 with
  | VList l => match slice_get l start end_ with Some x => Ok (VList x) | None => Err end
  | VStr s => match slice_get (chars s) start end_ with       (* Vec<char>::get(start..end) *)
              | Some cs => Ok (VStr (String.concat EmptyString cs))
              | None => Err
              end
  | _ => Err
  end.

(* ---------- concat ---------- *)
Fixpoint concat_args (args : list value) : list value :=
  match args with
  | [] => []
  | VList l :: rest => l ++ concat_args rest
  | VSpread (VList l) :: rest => l ++ concat_args rest
  | VSpread (VStr s) :: rest => map VStr (chars s) ++ concat_args rest
  | v :: rest => v :: concat_args rest
  end.
Definition bi_concat (args : list value) : outcome value := Ok (VList (concat_args args)).

(* ---------- unique ---------- *)
Fixpoint unique_go (items unique_list : list value) : list value :=
  match items with
  | [] => unique_list
  | item :: rest =>
      if existsb (fun existing => equals item existing) unique_list
      then unique_go rest unique_list
      else unique_go rest (unique_list ++ [item])
  end.
Definition bi_unique (args : list value) : outcome value :=
  do a0 <- arg args 0; do l <- as_list a0; Ok (VList (unique_go l [])).

(* ---------- sort ---------- *)
(* a.compare(b).unwrap_or(None).unwrap_or(Ordering::Equal) *)
Definition cmp_or_eq (a b : value) : comparison :=
  match compare a b with Some c => c | None => Eq end.
Definition is_Lt (c : comparison) : bool := match c with Lt => true | _ => false end.

(* stable_sort_by (functions.rs, after impl BuiltInFunction): top-down merge sort
     if len < 2 return; right = list.split_off(len / 2); sort(list); sort(right);
     merge: while both non-empty: if cmp(right[j], left[i]) == Less take right[j] else left[i];
     then the rest of left, the rest of right.
   [fuel] only makes the recursion structural: length l suffices (each half is shorter). *)
Section MergeSort.
  Context {A : Type}.
  Variable is_less : A -> A -> bool.
  Fixpoint merge (left right : list A) {struct left} : list A :=
    let fix merge_right (right : list A) {struct right} : list A :=
      match left, right with
      | [], _ => right
      | _, [] => left
      | a :: left', b :: right' =>
          if is_less b a then b :: merge_right right' else a :: merge left' right
      end in
    merge_right right.
  Fixpoint merge_sort_fuel (fuel : nat) (l : list A) : list A :=
    match fuel with
    | O => l
    | S f =>
        if (length l <? 2)%nat then l
        else let half := (length l / 2)%nat in
             merge (merge_sort_fuel f (firstn half l)) (merge_sort_fuel f (skipn half l))
    end.
  Definition merge_sort (l : list A) : list A := merge_sort_fuel (length l) l.
End MergeSort.

(* all pairs comparable (including every element with itself: no NaN): then Value::compare
   is a total preorder on the elements (proofs/Order.v) *)
Definition mutually_comparable (l : list value) : bool :=
  forallb (fun a => forallb (fun b => match compare a b with Some _ => true | None => false end) l) l.

Definition value_less (a b : value) : bool := is_Lt (cmp_or_eq a b).

Definition bi_sort (args : list value) : outcome value :=
  do a0 <- arg args 0; do l <- as_list a0; Ok (VList (merge_sort value_less l)).

Definition bi_reverse (args : list value) : outcome value :=
  do a0 <- arg args 0; do l <- as_list a0; Ok (VList (rev l)).

(* ---------- str::split / contains / replace by naive search ---------- *)
Fixpoint is_prefix (p s : string) : bool :=
  match p, s with
  | EmptyString, _ => true
  | String a p', String b s' => Ascii.eqb a b && is_prefix p' s'
  | String _ _, EmptyString => false
  end.
Definition snoc (s : string) (c : ascii) : string := (s ++ String c EmptyString)%string.

(* non-empty delimiter: leftmost non-overlapping matches; [skip] = bytes of the matched
   delimiter still to be passed over; [cur] = the piece being collected *)
Fixpoint split_acc (d s : string) (skip : nat) (cur : string) : list string :=
  match s with
  | EmptyString => [cur]
  | String c r =>
      match skip with
      | S k => split_acc d r k cur
      | O => if is_prefix d s then cur :: split_acc d r (str_len d - 1) EmptyString
             else split_acc d r 0 (snoc cur c)
      end
  end.
(* str::split(pat): the empty pattern matches at every char boundary including both ends *)
Definition str_split (s d : string) : list string :=
  match d with
  | EmptyString => EmptyString :: chars s ++ [EmptyString]
  | _ => split_acc d s 0 EmptyString
  end.

Fixpoint str_contains (s needle : string) : bool :=
  if is_prefix needle s then true
  else match s with EmptyString => false | String _ r => str_contains r needle end.

Fixpoint replace_acc (old new s : string) (skip : nat) : string :=
  match s with
  | EmptyString => EmptyString
  | String c r =>
      match skip with
      | S k => replace_acc old new r k
      | O => if is_prefix old s then (new ++ replace_acc old new r (str_len old - 1))%string
             else String c (replace_acc old new r 0)
      end
  end.
(* str::replace(from, to) *)
Definition str_replace (s old new : string) : string :=
  match old with
  | EmptyString => (new ++ String.concat EmptyString (map (fun ch => ch ++ new) (chars s)))%string
  | _ => replace_acc old new s 0
  end.

(* [String]::join(sep) *)
Fixpoint str_join (sep : string) (l : list string) : string :=
  match l with
  | [] => EmptyString
  | [x] => x
  | x :: r => (x ++ sep ++ str_join sep r)%string
  end.

Definition bi_split (args : list value) : outcome value :=
  do a0 <- arg args 0; do s <- as_string a0;
  do a1 <- arg args 1; do delimeter <- as_string a1;
  Ok (VList (map VStr (str_split s delimeter))).

Definition bi_replace (args : list value) : outcome value :=
  do a1 <- arg args 1; do old <- as_string a1;
  do a2 <- arg args 2; do new <- as_string a2;
  do a0 <- arg args 0; do s <- as_string a0;
  Ok (VStr (str_replace s old new)).

Definition bi_includes (args : list value) : outcome value :=
  do a0 <- arg args 0;
  match a0 with
  | VList l =>
      (fix go (l : list value) : outcome value :=
         match l with
         | [] => Ok (VBool false)
         | item :: rest => do a1 <- arg args 1;            (* args[1] is only touched inside the loop *)
                           if equals item a1 then Ok (VBool true) else go rest
         end) l
  | VStr s =>
      do a1 <- arg args 1; do needle <- as_string a1; Ok (VBool (str_contains s needle))
  | _ => Err
  end.

(* ---------- library text functions: Unicode tables and number / function printing ---------- *)
Section WithText.
  Variable str_trim : string -> string.          (* str::trim  (Unicode White_Space) *)
  Variable str_upper : string -> string.         (* str::to_uppercase *)
  Variable str_lower : string -> string.         (* str::to_lowercase *)
  Variable num_str : num -> string.              (* <f64 as Display>::to_string *)
  Variable lam_str : list lamarg -> expr -> list (string * value) -> string.
                                                 (* "(args) => " ++ expr_to_source_with_scope *)

  Definition bi_trim (args : list value) : outcome value :=
    do a0 <- arg args 0; do s <- as_string a0; Ok (VStr (str_trim s)).
  Definition bi_uppercase (args : list value) : outcome value :=
    do a0 <- arg args 0; do s <- as_string a0; Ok (VStr (str_upper s)).
  Definition bi_lowercase (args : list value) : outcome value :=
    do a0 <- arg args 0; do s <- as_string a0; Ok (VStr (str_lower s)).

  (* Value::stringify(heap, wrap_strings, display_format = false) *)
  Fixpoint stringify (wrap_strings : bool) (v : value) : string :=
    match v with
    | VStr s => if wrap_strings then String """" (snoc s """") else s
    | VList l => "[" ++ str_join ", " (map (stringify wrap_strings) l) ++ "]"
    | VRec r =>
        "{" ++ str_join ", " (map (fun kv => fst kv ++ ": " ++ stringify wrap_strings (snd kv)) r) ++ "}"
    | VLam _ a b sc => lam_str a b sc
    | VBuiltin b => builtin_name b ++ " (built-in)"
    | VSpread (VList l) => "..." ++ String.concat "" (map (stringify wrap_strings) l)
    | VSpread (VStr s) => "..." ++ s
    | VSpread (VRec r) =>
        "...{" ++ str_join ", " (map (fun kv => fst kv ++ ": " ++ stringify wrap_strings (snd kv)) r) ++ "}"
    | VSpread _ => "..."
    | VNum x => num_str x
    | VBool true => "true"
    | VBool false => "false"
    | VNull => "null"
    end%string.

  Definition bi_join (args : list value) : outcome value :=
    do a1 <- arg args 1; do delimeter <- as_string a1;
    do a0 <- arg args 0; do l <- as_list a0;
    Ok (VStr (str_join delimeter (map (stringify false) l))).
End WithText.

(* ---------- records ---------- *)
Definition bi_keys (args : list value) : outcome value :=
  do a0 <- arg args 0; do r <- as_record a0; Ok (VList (map (fun kv => VStr (fst kv)) r)).
Definition bi_values (args : list value) : outcome value :=
  do a0 <- arg args 0; do r <- as_record a0; Ok (VList (map snd r)).
Definition bi_entries (args : list value) : outcome value :=
  do a0 <- arg args 0; do r <- as_record a0;
  Ok (VList (map (fun kv => VList [VStr (fst kv); snd kv]) r)).

(* ---------- flatten zip chunk ---------- *)
Fixpoint flatten_items (l : list value) : list value :=
  match l with
  | [] => []
  | VList inner :: rest => inner ++ flatten_items rest
  | item :: rest => item :: flatten_items rest
  end.
Definition bi_flatten (args : list value) : outcome value :=
  do a0 <- arg args 0; do l <- as_list a0; Ok (VList (flatten_items l)).

Definition zip_tuple (lists : list (list value)) (i : nat) : value :=
  VList (map (fun l => nth i l VNull) lists).
Definition bi_zip (args : list value) : outcome value :=
  do lists <- mapM (fun a => match a with VList l => Ok l | _ => Err end) args;
  let max_len := fold_left (fun m l => Nat.max m (length l)) lists 0%nat in
  Ok (VList (map (zip_tuple lists) (seq 0 max_len))).

(* slice::chunks(n), n >= 1: [room] = free places left in [cur] *)
Fixpoint chunk_acc {A} (l : list A) (n room : nat) (cur : list A) : list (list A) :=
  match l with
  | [] => match cur with [] => [] | _ => [cur] end
  | x :: rest =>
      match room with
      | O => cur :: chunk_acc rest n (n - 1) [x]
      | S k => chunk_acc rest n k (cur ++ [x])
      end
  end.
Definition chunks {A} (l : list A) (n : nat) : list (list A) := chunk_acc l n n [].

Definition bi_chunk (args : list value) : outcome value :=
  do a1 <- arg args 1; do nf <- as_number a1; let n := as_usize nf in
  if n =? 0 then Err
  else
    do a0 <- arg args 0; do l <- as_list a0;
    (* chunks(n) = chunks(len) for n >= len; the clamp only keeps the unary size small *)
    Ok (VList (map VList (chunks l (Z.to_nat (Z.min n (Z.max 1 (Z.of_nat (length l)))))))).

(* ---------- the callback-taking ones ---------- *)
Section WithCall.
  Variable St : Type.
  (* FunctionDef::call(this_value, args, …) of the function value, with the evaluator state *)
  Variable call : value -> value -> list value -> St -> outcome value * St.

  (* the comparator closure of sort_by: both keys are computed on every comparison; any
     failure (not a function, an error in either call, incomparable keys) is Ordering::Equal;
     a panic inside the callback unwinds through the sort *)
  Definition sort_by_cmp (func a b : value) (st : St) : outcome comparison * St :=
    if is_function func then
      let '(result_a, st1) := call func func [a] st in
      match result_a with
      | Panic => (Panic, st1)
      | Unmodelled => (Unmodelled, st1)
      | _ =>
          let '(result_b, st2) := call func func [b] st1 in
          match result_b with
          | Panic => (Panic, st2)
          | Unmodelled => (Unmodelled, st2)
          | _ =>
              match result_a, result_b with
              | Ok val_a, Ok val_b => (Ok (cmp_or_eq val_a val_b), st2)
              | _, _ => (Ok Eq, st2)
              end
          end
      end
    else (Ok Eq, st).

  (* the merge loop with the comparator closure: cmp(right[j], left[i]) == Less *)
  Fixpoint merge_by (func : value) (left right : list value) (st : St) {struct left}
    : outcome (list value) * St :=
    let fix merge_right (right : list value) (st : St) {struct right} : outcome (list value) * St :=
      match left, right with
      | [], _ => (Ok right, st)
      | _, [] => (Ok left, st)
      | a :: left', b :: right' =>
          let '(c, st1) := sort_by_cmp func b a st in
          match c with
          | Ok Lt => let '(res, st2) := merge_right right' st1 in (omap (cons b) res, st2)
          | Ok _ => let '(res, st2) := merge_by func left' right st1 in (omap (cons a) res, st2)
          | Err => (Err, st1) | ErrDepth => (ErrDepth, st1)
          | Panic => (Panic, st1) | Unmodelled => (Unmodelled, st1)
          end
      end in
    merge_right right st.

  Fixpoint merge_sort_by_fuel (fuel : nat) (func : value) (l : list value) (st : St)
    : outcome (list value) * St :=
    match fuel with
    | O => (Ok l, st)
    | S f =>
        if (length l <? 2)%nat then (Ok l, st)
        else
          let half := (length l / 2)%nat in
          let '(sorted_left, st1) := merge_sort_by_fuel f func (firstn half l) st in
          match sorted_left with
          | Ok left' =>
              let '(sorted_right, st2) := merge_sort_by_fuel f func (skipn half l) st1 in
              match sorted_right with
              | Ok right' => merge_by func left' right' st2
              | other => (other, st2)
              end
          | other => (other, st1)
          end
    end.
  Definition sort_by_list (func : value) (l : list value) (st : St) : outcome (list value) * St :=
    merge_sort_by_fuel (length l) func l st.

  Definition bi_sort_by (args : list value) (st : St) : outcome value * St :=
    match arg args 1 with
    | Ok func =>
        match obind (arg args 0) as_list with
        | Ok l => let '(res, st1) := sort_by_list func l st in (omap VList res, st1)
        | Err => (Err, st) | ErrDepth => (ErrDepth, st) | Panic => (Panic, st)
        | Unmodelled => (Unmodelled, st)
        end
    | _ => (Panic, st)
    end.

  (* groups.entry(key).or_default().push(item) on an IndexMap<String, Vec<Value>> *)
  Fixpoint group_push (groups : list (string * list value)) (key : string) (item : value)
    : list (string * list value) :=
    match groups with
    | [] => [(key, [item])]
    | (k, items) :: rest =>
        if String.eqb key k then (k, items ++ [item]) :: rest
        else (k, items) :: group_push rest key item
    end.

  (* the loop of group_by / count_by: key of every item, left to right, first failure stops *)
  Fixpoint keyed_items (func : value) (l : list value) (st : St)
    : outcome (list (string * value)) * St :=
    match l with
    | [] => (Ok [], st)
    | item :: rest =>
        let '(key_result, st1) := call func func [item] st in
        match key_result with
        | Ok (VStr key) =>
            let '(more, st2) := keyed_items func rest st1 in
            (omap (cons (key, item)) more, st2)
        | Ok _ => (Err, st1)            (* "key function must return a string" *)
        | Err => (Err, st1) | ErrDepth => (ErrDepth, st1)
        | Panic => (Panic, st1) | Unmodelled => (Unmodelled, st1)
        end
    end.

  Definition groups_of (keyed : list (string * value)) : list (string * list value) :=
    fold_left (fun groups kv => group_push groups (fst kv) (snd kv)) keyed [].

  (* *counts.entry(key).or_insert(0.0) += 1.0 *)
  Fixpoint count_push (counts : list (string * num)) (key : string) : list (string * num) :=
    match counts with
    | [] => [(key, nadd nzero one)]
    | (k, c) :: rest =>
        if String.eqb key k then (k, nadd c one) :: rest else (k, c) :: count_push rest key
    end.
  Definition counts_of (keyed : list (string * value)) : list (string * num) :=
    fold_left (fun counts kv => count_push counts (fst kv)) keyed [].

  (* shared prologue: func = &args[1]; args[0].as_list_pointer()?; get_function_def(func)? *)
  Definition by_prologue (args : list value) : outcome (value * list value) :=
    do func <- arg args 1;
    do a0 <- arg args 0; do l <- as_list a0;
    if is_function func then Ok (func, l) else Err.

  Definition bi_group_by (args : list value) (st : St) : outcome value * St :=
    match by_prologue args with
    | Ok (func, l) =>
        let '(keyed, st1) := keyed_items func l st in
        (omap (fun k => VRec (map (fun g => (fst g, VList (snd g))) (groups_of k))) keyed, st1)
    | Err => (Err, st) | ErrDepth => (ErrDepth, st) | Panic => (Panic, st)
    | Unmodelled => (Unmodelled, st)
    end.

  Definition bi_count_by (args : list value) (st : St) : outcome value * St :=
    match by_prologue args with
    | Ok (func, l) =>
        let '(keyed, st1) := keyed_items func l st in
        (omap (fun k => VRec (map (fun c => (fst c, VNum (snd c))) (counts_of k))) keyed, st1)
    | Err => (Err, st) | ErrDepth => (ErrDepth, st) | Panic => (Panic, st)
    | Unmodelled => (Unmodelled, st)
    end.
End WithCall.
