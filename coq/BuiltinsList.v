(* BuiltinsList.v — the list / string / record built-ins, each transcribed from its arm of
   BuiltInFunction::call in blots-core/src/functions.rs.  Definitions only.

   bi_<name> (args : list value) : outcome value   is the arm, applied to the argument
   vector exactly as `call` receives it (the arity check of FunctionDef::call happens
   BEFORE `call` and is not part of these functions; so `args[i]` on a short vector is
   an explicit Panic here, as it is in Rust when `call` is invoked directly).

   Every partial Rust operation on these paths is an explicit Panic: args[i]; the i64
   subtraction in range (debug: overflow panic; release: wraps, and the subsequent collect()
   panics with "capacity overflow" — both profiles abort exactly when the mathematical
   difference leaves i64).  String functions len/head/tail/slice are byte-based today and are
   transcribed as they are (str::len, str::get(a..b) with its char-boundary test). *)
From Coq Require Import String Ascii List ZArith Bool.
Require Import Blots.Num Blots.gen.Builtins Blots.Ast Blots.Value Blots.Outcome Blots.Access.
Import ListNotations.
Open Scope list_scope.
Open Scope Z_scope.

(* ---------- argument access and the as_* helpers of values.rs ---------- *)
Definition arg (args : list value) (i : nat) : outcome value :=            (* args[i] *)
  match nth_error args i with Some v => Ok v | None => Panic end.
Definition as_number (v : value) : outcome num := match v with VNum x => Ok x | _ => Err end.
Definition as_string (v : value) : outcome string := match v with VStr s => Ok s | _ => Err end.
Definition as_list (v : value) : outcome (list value) := match v with VList l => Ok l | _ => Err end.
Definition as_record (v : value) : outcome (list (string * value)) :=
  match v with VRec r => Ok r | _ => Err end.
(* get_function_def(value, heap).is_some() *)
Definition is_function (v : value) : bool :=
  match v with VLam _ _ _ _ | VBuiltin _ => true | _ => false end.

Definition num_of_nat (n : nat) : num := num_of_Z (Z.of_nat n).               (* usize as f64 *)
Definition one : num := num_of_Z 1.

(* ---------- byte strings: str::len, str::get(a..b) ---------- *)
Definition str_len (s : string) : nat := String.length s.
Fixpoint str_drop (n : nat) (s : string) : string :=
  match n, s with
  | O, _ => s
  | S k, String _ r => str_drop k r
  | S _, EmptyString => EmptyString
  end.
Fixpoint str_take (n : nat) (s : string) : string :=
  match n, s with
  | S k, String c r => String c (str_take k r)
  | _, _ => EmptyString
  end.
(* str::is_char_boundary(i): 0 and len are boundaries, beyond len is not, otherwise the byte
   at i must not be a continuation byte *)
Definition is_char_boundary (s : string) (i : Z) : bool :=
  if i =? 0 then true
  else if i =? Z.of_nat (str_len s) then true
  else if (i <? 0) || (Z.of_nat (str_len s) <? i) then false
  else match str_drop (Z.to_nat i) s with
       | String c _ => negb (is_cont c)
       | EmptyString => false
       end.
(* str::get(a..b) *)
Definition str_get (s : string) (a b : Z) : option string :=
  if (a <=? b) && (b <=? Z.of_nat (str_len s)) && is_char_boundary s a && is_char_boundary s b
  then Some (str_take (Z.to_nat (b - a)) (str_drop (Z.to_nat a) s))
  else None.
(* str::get(a..) *)
Definition str_get_from (s : string) (a : Z) : option string := str_get s a (Z.of_nat (str_len s)).

(* slice::get(a..b) on a Vec *)
Definition slice_get {A} (l : list A) (a b : Z) : option (list A) :=
  if (a <=? b) && (b <=? Z.of_nat (length l))
  then Some (firstn (Z.to_nat (b - a)) (skipn (Z.to_nat a) l))
  else None.

(* ---------- range ---------- *)
Fixpoint zrange (start : Z) (n : nat) : list Z :=
  match n with O => [] | S k => start :: zrange (start + 1) k end.

Definition range_body (start end_ : num) : outcome value :=
  if ngtb start end_ then Err                              (* start > end *)
  else if negb (is_finite start) || negb (is_finite end_) then Err
  else
    let start_i64 := as_i64 start in
    let end_i64 := as_i64 end_ in
    let length := end_i64 - start_i64 in
    if (length <? I64_MIN) || (I64_MAX <? length) then Panic      (* i64 subtraction overflows *)
    else if U32_MAX <? length then Err
    else Ok (VList (map (fun e => VNum (num_of_Z e)) (zrange start_i64 (Z.to_nat length)))).

Definition bi_range (args : list value) : outcome value :=
  match args with
  | [VNum start] => range_body nzero start
  | [VNum start; VNum end_] => range_body start end_
  | _ => Err
  end.

(* ---------- len head tail slice ---------- *)
Definition bi_len (args : list value) : outcome value :=
  do a0 <- arg args 0;
  match a0 with
  | VList l => Ok (VNum (num_of_nat (length l)))
  | VStr s => Ok (VNum (num_of_nat (str_len s)))             (* String::len: bytes *)
  | _ => Err
  end.

Definition bi_head (args : list value) : outcome value :=
  do a0 <- arg args 0;
  match a0 with
  | VList l => Ok (match l with x :: _ => x | [] => VNull end)
  | VStr s => Ok (VStr (match str_get s 0 1 with Some t => t | None => EmptyString end))
  | _ => Err
  end.

Definition bi_tail (args : list value) : outcome value :=
  do a0 <- arg args 0;
  match a0 with
  | VList l => Ok (VList (match slice_get l 1 (Z.of_nat (length l)) with Some t => t | None => [] end))
  | VStr s => Ok (VStr (match str_get_from s 1 with Some t => t | None => EmptyString end))
  | _ => Err
  end.

Definition bi_slice (args : list value) : outcome value :=
  do a1 <- arg args 1; do start_f <- as_number a1; let start := as_usize start_f in
  do a2 <- arg args 2; do end_f <- as_number a2; let end_ := as_usize end_f in
  do a0 <- arg args 0;
  match a0 with
  | VList l => match slice_get l start end_ with Some x => Ok (VList x) | None => Err end
  | VStr s => match str_get s start end_ with Some t => Ok (VStr t) | None => Err end
  | _ => Err
  end.

(* ---------- the character-based variants proposed in fixes/C14-string-chars.diff ----------
   (len / head / tail / slice of a string through str::chars(), like indexing and spreading);
   lists are handled as before.  Not the current code: used by the `_fixed` theorems and, in the
   correspondence, as the only accepted alternative on inputs of the open finding class. *)
Definition bi_len_chars (args : list value) : outcome value :=
  do a0 <- arg args 0;
  match a0 with
  | VStr s => Ok (VNum (num_of_nat (length (chars s))))          (* s.chars().count() *)
  | _ => bi_len args
  end.
Definition bi_head_chars (args : list value) : outcome value :=
  do a0 <- arg args 0;
  match a0 with
  | VStr s => Ok (VStr (match chars s with ch :: _ => ch | [] => EmptyString end))
  | _ => bi_head args
  end.
Definition bi_tail_chars (args : list value) : outcome value :=
  do a0 <- arg args 0;
  match a0 with
  | VStr s => Ok (VStr (String.concat EmptyString (tl (chars s))))
  | _ => bi_tail args
  end.
Definition bi_slice_chars (args : list value) : outcome value :=
  do a1 <- arg args 1; do start_f <- as_number a1; let start := as_usize start_f in
  do a2 <- arg args 2; do end_f <- as_number a2; let end_ := as_usize end_f in
  do a0 <- arg args 0;
  match a0 with
  | VStr s => match slice_get (chars s) start end_ with
              | Some cs => Ok (VStr (String.concat EmptyString cs))
              | None => Err
              end
  | _ => bi_slice args
  end.

(* ---------- concat ---------- *)
Fixpoint concat_args (args : list value) : list value :=
  match args with
  | [] => []
  | VList l :: rest => l ++ concat_args rest
  | VSpread (VList l) :: rest => l ++ concat_args rest
  | VSpread (VStr s) :: rest => map VStr (chars s) ++ concat_args rest
  | v :: rest => v :: concat_args rest
  end.
Definition bi_concat (args : list value) : outcome value := Ok (VList (concat_args args)).

(* ---------- unique ---------- *)
Fixpoint unique_go (items unique_list : list value) : list value :=
  match items with
  | [] => unique_list
  | item :: rest =>
      if existsb (fun existing => equals item existing) unique_list
      then unique_go rest unique_list
      else unique_go rest (unique_list ++ [item])
  end.
Definition bi_unique (args : list value) : outcome value :=
  do a0 <- arg args 0; do l <- as_list a0; Ok (VList (unique_go l [])).

(* ---------- sort ---------- *)
(* a.compare(b).unwrap_or(None).unwrap_or(Ordering::Equal) *)
Definition cmp_or_eq (a b : value) : comparison :=
  match compare a b with Some c => c | None => Eq end.
Definition is_Lt (c : comparison) : bool := match c with Lt => true | _ => false end.

(* slice::sort_by of std 1.89 (core::slice::sort::stable::sort):
     len < 2            nothing
     len <= 20          insertion_sort_shift_left(v, 1, is_less): for every i, the element v[i]
                        moves left while is_less(v[i], predecessor)
     len > 20           driftsort — a stable sort whose result is determined only when the
                        comparator is a total order on the input; otherwise the result is an
                        unspecified permutation and the call MAY PANIC ("user-provided
                        comparison function does not correctly implement a total order").
   The model is the insertion sort (exact for len <= 20 whatever the comparator does; equal to
   every stable sort when the comparator is a total preorder), and Unmodelled in the class
   where std's behaviour is unspecified. *)
Section InsertionSort.
  Context {A : Type}.
  Variable is_less : A -> A -> bool.
  (* insert_tail: [prefix_rev] is the sorted prefix, last element first *)
  Fixpoint insert_tail (x : A) (prefix_rev : list A) : list A :=
    match prefix_rev with
    | y :: rest => if is_less x y then y :: insert_tail x rest else x :: prefix_rev
    | [] => [x]
    end.
  Definition insertion_sort (l : list A) : list A :=
    rev (fold_left (fun prefix_rev x => insert_tail x prefix_rev) l []).
End InsertionSort.

(* all pairs comparable (including every element with itself: no NaN): then Value::compare
   is a total preorder on the elements (proofs/Order.v) *)
Definition mutually_comparable (l : list value) : bool :=
  forallb (fun a => forallb (fun b => match compare a b with Some _ => true | None => false end) l) l.

Definition sort_determined (l : list value) : bool :=
  (length l <=? 20)%nat || mutually_comparable l.

Definition value_less (a b : value) : bool := is_Lt (cmp_or_eq a b).

Definition bi_sort (args : list value) : outcome value :=
  do a0 <- arg args 0; do l <- as_list a0;
  if sort_determined l then Ok (VList (insertion_sort value_less l)) else Unmodelled.

Definition bi_reverse (args : list value) : outcome value :=
  do a0 <- arg args 0; do l <- as_list a0; Ok (VList (rev l)).

(* ---------- str::split / contains / replace by naive search ---------- *)
Fixpoint is_prefix (p s : string) : bool :=
  match p, s with
  | EmptyString, _ => true
  | String a p', String b s' => Ascii.eqb a b && is_prefix p' s'
  | String _ _, EmptyString => false
  end.
Definition snoc (s : string) (c : ascii) : string := (s ++ String c EmptyString)%string.

(* non-empty delimiter: leftmost non-overlapping matches; [skip] = bytes of the matched
   delimiter still to be passed over; [cur] = the piece being collected *)
Fixpoint split_acc (d s : string) (skip : nat) (cur : string) : list string :=
  match s with
  | EmptyString => [cur]
  | String c r =>
      match skip with
      | S k => split_acc d r k cur
      | O => if is_prefix d s then cur :: split_acc d r (str_len d - 1) EmptyString
             else split_acc d r 0 (snoc cur c)
      end
  end.
(* str::split(pat): the empty pattern matches at every char boundary including both ends *)
Definition str_split (s d : string) : list string :=
  match d with
  | EmptyString => EmptyString :: chars s ++ [EmptyString]
  | _ => split_acc d s 0 EmptyString
  end.

Fixpoint str_contains (s needle : string) : bool :=
  if is_prefix needle s then true
  else match s with EmptyString => false | String _ r => str_contains r needle end.

Fixpoint replace_acc (old new s : string) (skip : nat) : string :=
  match s with
  | EmptyString => EmptyString
  | String c r =>
      match skip with
      | S k => replace_acc old new r k
      | O => if is_prefix old s then (new ++ replace_acc old new r (str_len old - 1))%string
             else String c (replace_acc old new r 0)
      end
  end.
(* str::replace(from, to) *)
Definition str_replace (s old new : string) : string :=
  match old with
  | EmptyString => (new ++ String.concat EmptyString (map (fun ch => ch ++ new) (chars s)))%string
  | _ => replace_acc old new s 0
  end.

(* [String]::join(sep) *)
Fixpoint str_join (sep : string) (l : list string) : string :=
  match l with
  | [] => EmptyString
  | [x] => x
  | x :: r => (x ++ sep ++ str_join sep r)%string
  end.

Definition bi_split (args : list value) : outcome value :=
  do a0 <- arg args 0; do s <- as_string a0;
  do a1 <- arg args 1; do delimeter <- as_string a1;
  Ok (VList (map VStr (str_split s delimeter))).

Definition bi_replace (args : list value) : outcome value :=
  do a1 <- arg args 1; do old <- as_string a1;
  do a2 <- arg args 2; do new <- as_string a2;
  do a0 <- arg args 0; do s <- as_string a0;
  Ok (VStr (str_replace s old new)).

Definition bi_includes (args : list value) : outcome value :=
  do a0 <- arg args 0;
  match a0 with
  | VList l =>
      (fix go (l : list value) : outcome value :=
         match l with
         | [] => Ok (VBool false)
         | item :: rest => do a1 <- arg args 1;            (* args[1] is only touched inside the loop *)
                           if equals item a1 then Ok (VBool true) else go rest
         end) l
  | VStr s =>
      do a1 <- arg args 1; do needle <- as_string a1; Ok (VBool (str_contains s needle))
  | _ => Err
  end.

(* ---------- library text functions: Unicode tables and number / function printing ---------- *)
Section WithText.
  Variable str_trim : string -> string.          (* str::trim  (Unicode White_Space) *)
  Variable str_upper : string -> string.         (* str::to_uppercase *)
  Variable str_lower : string -> string.         (* str::to_lowercase *)
  Variable num_str : num -> string.              (* <f64 as Display>::to_string *)
  Variable lam_str : list lamarg -> expr -> list (string * value) -> string.
                                                 (* "(args) => " ++ expr_to_source_with_scope *)

  Definition bi_trim (args : list value) : outcome value :=
    do a0 <- arg args 0; do s <- as_string a0; Ok (VStr (str_trim s)).
  Definition bi_uppercase (args : list value) : outcome value :=
    do a0 <- arg args 0; do s <- as_string a0; Ok (VStr (str_upper s)).
  Definition bi_lowercase (args : list value) : outcome value :=
    do a0 <- arg args 0; do s <- as_string a0; Ok (VStr (str_lower s)).

  (* Value::stringify(heap, wrap_strings, display_format = false) *)
  Fixpoint stringify (wrap_strings : bool) (v : value) : string :=
    match v with
    | VStr s => if wrap_strings then String """" (snoc s """") else s
    | VList l => "[" ++ str_join ", " (map (stringify wrap_strings) l) ++ "]"
    | VRec r =>
        "{" ++ str_join ", " (map (fun kv => fst kv ++ ": " ++ stringify wrap_strings (snd kv)) r) ++ "}"
    | VLam _ a b sc => lam_str a b sc
    | VBuiltin b => builtin_name b ++ " (built-in)"
    | VSpread (VList l) => "..." ++ String.concat "" (map (stringify wrap_strings) l)
    | VSpread (VStr s) => "..." ++ s
    | VSpread (VRec r) =>
        "...{" ++ str_join ", " (map (fun kv => fst kv ++ ": " ++ stringify wrap_strings (snd kv)) r) ++ "}"
    | VSpread _ => "..."
    | VNum x => num_str x
    | VBool true => "true"
    | VBool false => "false"
    | VNull => "null"
    end%string.

  Definition bi_join (args : list value) : outcome value :=
    do a1 <- arg args 1; do delimeter <- as_string a1;
    do a0 <- arg args 0; do l <- as_list a0;
    Ok (VStr (str_join delimeter (map (stringify false) l))).
End WithText.

(* ---------- records ---------- *)
Definition bi_keys (args : list value) : outcome value :=
  do a0 <- arg args 0; do r <- as_record a0; Ok (VList (map (fun kv => VStr (fst kv)) r)).
Definition bi_values (args : list value) : outcome value :=
  do a0 <- arg args 0; do r <- as_record a0; Ok (VList (map snd r)).
Definition bi_entries (args : list value) : outcome value :=
  do a0 <- arg args 0; do r <- as_record a0;
  Ok (VList (map (fun kv => VList [VStr (fst kv); snd kv]) r)).

(* ---------- flatten zip chunk ---------- *)
Fixpoint flatten_items (l : list value) : list value :=
  match l with
  | [] => []
  | VList inner :: rest => inner ++ flatten_items rest
  | item :: rest => item :: flatten_items rest
  end.
Definition bi_flatten (args : list value) : outcome value :=
  do a0 <- arg args 0; do l <- as_list a0; Ok (VList (flatten_items l)).

Definition zip_tuple (lists : list (list value)) (i : nat) : value :=
  VList (map (fun l => nth i l VNull) lists).
Definition bi_zip (args : list value) : outcome value :=
  do lists <- mapM (fun a => match a with VList l => Ok l | _ => Err end) args;
  let max_len := fold_left (fun m l => Nat.max m (length l)) lists 0%nat in
  Ok (VList (map (zip_tuple lists) (seq 0 max_len))).

(* slice::chunks(n), n >= 1: [room] = free places left in [cur] *)
Fixpoint chunk_acc {A} (l : list A) (n room : nat) (cur : list A) : list (list A) :=
  match l with
  | [] => match cur with [] => [] | _ => [cur] end
  | x :: rest =>
      match room with
      | O => cur :: chunk_acc rest n (n - 1) [x]
      | S k => chunk_acc rest n k (cur ++ [x])
      end
  end.
Definition chunks {A} (l : list A) (n : nat) : list (list A) := chunk_acc l n n [].

Definition bi_chunk (args : list value) : outcome value :=
  do a1 <- arg args 1; do nf <- as_number a1; let n := as_usize nf in
  if n =? 0 then Err
  else
    do a0 <- arg args 0; do l <- as_list a0;
    (* chunks(n) = chunks(len) for n >= len; the clamp only keeps the unary size small *)
    Ok (VList (map VList (chunks l (Z.to_nat (Z.min n (Z.max 1 (Z.of_nat (length l)))))))).

(* ---------- the callback-taking ones ---------- *)
Section WithCall.
  Variable St : Type.
  (* FunctionDef::call(this_value, args, …) of the function value, with the evaluator state *)
  Variable call : value -> value -> list value -> St -> outcome value * St.

  (* the comparator closure of sort_by: both keys are computed on every comparison; any
     failure (not a function, an error in either call, incomparable keys) is Ordering::Equal;
     a panic inside the callback unwinds through the sort *)
  Definition sort_by_cmp (func a b : value) (st : St) : outcome comparison * St :=
    if is_function func then
      let '(result_a, st1) := call func func [a] st in
      match result_a with
      | Panic => (Panic, st1)
      | Unmodelled => (Unmodelled, st1)
      | _ =>
          let '(result_b, st2) := call func func [b] st1 in
          match result_b with
          | Panic => (Panic, st2)
          | Unmodelled => (Unmodelled, st2)
          | _ =>
              match result_a, result_b with
              | Ok val_a, Ok val_b => (Ok (cmp_or_eq val_a val_b), st2)
              | _, _ => (Ok Eq, st2)
              end
          end
      end
    else (Ok Eq, st).

  (* insert_tail with the comparator closure; is_less(tail, prev) = (cmp(tail, prev) == Less) *)
  Fixpoint insert_tail_by (func x : value) (prefix_rev : list value) (st : St)
    : outcome (list value) * St :=
    match prefix_rev with
    | [] => (Ok [x], st)
    | y :: rest =>
        let '(c, st1) := sort_by_cmp func x y st in
        match c with
        | Ok Lt => let '(res, st2) := insert_tail_by func x rest st1 in (omap (cons y) res, st2)
        | Ok _ => (Ok (x :: prefix_rev), st1)
        | Err => (Err, st1) | ErrDepth => (ErrDepth, st1)
        | Panic => (Panic, st1) | Unmodelled => (Unmodelled, st1)
        end
    end.
  Fixpoint insertion_sort_by (func : value) (l prefix_rev : list value) (st : St)
    : outcome (list value) * St :=
    match l with
    | [] => (Ok (rev prefix_rev), st)
    | x :: rest =>
        let '(res, st1) := insert_tail_by func x prefix_rev st in
        match res with
        | Ok prefix_rev' => insertion_sort_by func rest prefix_rev' st1
        | other => (other, st1)
        end
    end.

  (* len > 20: the keys, one call per item (driftsort's actual number and order of calls is not
     modelled: the final state is exact only for a callback that does not depend on it) *)
  Fixpoint keys_of (func : value) (l : list value) (st : St) : outcome (list (value * value)) * St :=
    match l with
    | [] => (Ok [], st)
    | x :: rest =>
        let '(k, st1) := call func func [x] st in
        match k with
        | Ok kv => let '(more, st2) := keys_of func rest st1 in (omap (cons (kv, x)) more, st2)
        | Panic => (Panic, st1)
        | _ => (Unmodelled, st1)      (* an error is Ordering::Equal: not a total order in general *)
        end
    end.

  Definition sort_by_list (func : value) (l : list value) (st : St) : outcome (list value) * St :=
    if (length l <=? 20)%nat then insertion_sort_by func l [] st
    else if negb (is_function func) then (Ok l, st)          (* every comparison is Equal *)
    else
      let '(keyed, st1) := keys_of func l st in
      match keyed with
      | Ok kl =>
          if mutually_comparable (map fst kl)
          then (Ok (map snd (insertion_sort (fun a b => value_less (fst a) (fst b)) kl)), st1)
          else (Unmodelled, st1)
      | Err => (Err, st1) | ErrDepth => (ErrDepth, st1) | Panic => (Panic, st1)
      | Unmodelled => (Unmodelled, st1)
      end.

  Definition bi_sort_by (args : list value) (st : St) : outcome value * St :=
    match arg args 1 with
    | Ok func =>
        match obind (arg args 0) as_list with
        | Ok l => let '(res, st1) := sort_by_list func l st in (omap VList res, st1)
        | Err => (Err, st) | ErrDepth => (ErrDepth, st) | Panic => (Panic, st)
        | Unmodelled => (Unmodelled, st)
        end
    | _ => (Panic, st)
    end.

  (* groups.entry(key).or_default().push(item) on an IndexMap<String, Vec<Value>> *)
  Fixpoint group_push (groups : list (string * list value)) (key : string) (item : value)
    : list (string * list value) :=
    match groups with
    | [] => [(key, [item])]
    | (k, items) :: rest =>
        if String.eqb key k then (k, items ++ [item]) :: rest
        else (k, items) :: group_push rest key item
    end.

  (* the loop of group_by / count_by: key of every item, left to right, first failure stops *)
  Fixpoint keyed_items (func : value) (l : list value) (st : St)
    : outcome (list (string * value)) * St :=
    match l with
    | [] => (Ok [], st)
    | item :: rest =>
        let '(key_result, st1) := call func func [item] st in
        match key_result with
        | Ok (VStr key) =>
            let '(more, st2) := keyed_items func rest st1 in
            (omap (cons (key, item)) more, st2)
        | Ok _ => (Err, st1)            (* "key function must return a string" *)
        | Err => (Err, st1) | ErrDepth => (ErrDepth, st1)
        | Panic => (Panic, st1) | Unmodelled => (Unmodelled, st1)
        end
    end.

  Definition groups_of (keyed : list (string * value)) : list (string * list value) :=
    fold_left (fun groups kv => group_push groups (fst kv) (snd kv)) keyed [].

  (* *counts.entry(key).or_insert(0.0) += 1.0 *)
  Fixpoint count_push (counts : list (string * num)) (key : string) : list (string * num) :=
    match counts with
    | [] => [(key, nadd nzero one)]
    | (k, c) :: rest =>
        if String.eqb key k then (k, nadd c one) :: rest else (k, c) :: count_push rest key
    end.
  Definition counts_of (keyed : list (string * value)) : list (string * num) :=
    fold_left (fun counts kv => count_push counts (fst kv)) keyed [].

  (* shared prologue: func = &args[1]; args[0].as_list_pointer()?; get_function_def(func)? *)
  Definition by_prologue (args : list value) : outcome (value * list value) :=
    do func <- arg args 1;
    do a0 <- arg args 0; do l <- as_list a0;
    if is_function func then Ok (func, l) else Err.

  Definition bi_group_by (args : list value) (st : St) : outcome value * St :=
    match by_prologue args with
    | Ok (func, l) =>
        let '(keyed, st1) := keyed_items func l st in
        (omap (fun k => VRec (map (fun g => (fst g, VList (snd g))) (groups_of k))) keyed, st1)
    | Err => (Err, st) | ErrDepth => (ErrDepth, st) | Panic => (Panic, st)
    | Unmodelled => (Unmodelled, st)
    end.

  Definition bi_count_by (args : list value) (st : St) : outcome value * St :=
    match by_prologue args with
    | Ok (func, l) =>
        let '(keyed, st1) := keyed_items func l st in
        (omap (fun k => VRec (map (fun c => (fst c, VNum (snd c))) (counts_of k))) keyed, st1)
    | Err => (Err, st) | ErrDepth => (ErrDepth, st) | Panic => (Panic, st)
    | Unmodelled => (Unmodelled, st)
    end.
End WithCall.
