(* Outcome.v — the result type of every modelled operation that can fail in the Rust code.
     Ok v        the Rust function returned Ok(v)
     Err         it returned an Err(_) other than the call-depth error (messages are not modelled)
     ErrDepth    it returned the "maximum call depth of 1000 exceeded" error
     Panic       the Rust operation would abort (index out of bounds, unwrap on None,
                 arithmetic overflow in a debug build, capacity overflow, ...).  Every partial
                 Rust operation on a modelled path is transcribed to an explicit Panic, so that
                 "no panic" is a theorem about the guards and not a triviality of totality.
     Unmodelled  the model does not cover this operation (e.g. a built-in that is not
                 transcribed); the correspondence skips such cases and counts them.        *)
From Coq Require Import List.
Import ListNotations.

Inductive outcome (A : Type) : Type :=
| Ok (a : A) | Err | ErrDepth | Panic | Unmodelled.
Arguments Ok {A}. Arguments Err {A}. Arguments ErrDepth {A}. Arguments Panic {A}.
Arguments Unmodelled {A}.

Definition obind {A B} (x : outcome A) (f : A -> outcome B) : outcome B :=
  match x with
  | Ok a => f a | Err => Err | ErrDepth => ErrDepth | Panic => Panic | Unmodelled => Unmodelled
  end.
Definition omap {A B} (f : A -> B) (x : outcome A) : outcome B := obind x (fun a => Ok (f a)).
Definition of_option {A} (o : option A) : outcome A := match o with Some a => Ok a | None => Err end.
Definition is_ok {A} (x : outcome A) : bool := match x with Ok _ => true | _ => false end.
Definition is_panic {A} (x : outcome A) : bool := match x with Panic => true | _ => false end.

Notation "'do' x <- e ; f" := (obind e (fun x => f))
  (at level 200, x pattern, e at level 100, f at level 200, right associativity).

(* mapM: left to right, stops at the first non-Ok (Rust: `for … { …? }` / collect::<Result<_>>) *)
Fixpoint mapM {A B} (f : A -> outcome B) (l : list A) : outcome (list B) :=
  match l with
  | [] => Ok []
  | x :: r => do y <- f x; do ys <- mapM f r; Ok (y :: ys)
  end.
Fixpoint mapM2 {A B C} (f : A -> B -> outcome C) (l : list A) (m : list B) : outcome (list C) :=
  match l, m with
  | x :: l', y :: m' => do z <- f x y; do zs <- mapM2 f l' m'; Ok (z :: zs)
  | _, _ => Ok []
  end.
