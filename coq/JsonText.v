(* JsonText.v — the JSON TEXT layer of property C06: serde_json 1.0.x's compact serialiser
   (ser.rs: CompactFormatter, format_escaped_str) and its parser (de.rs / read.rs, StrRead,
   recursion limit 128), transcribed as executable Gallina over byte strings.
   Definitions only (proofs: proofs/JsonTextRT.v).

   Library parts kept abstract (Section variables):
   * ryu's shortest decimal of a finite double: [fmt_pieces : num -> numtok] (what is printed,
     already split into sign / integer digits / fraction digits / exponent)
   * text -> double: [float_of_tok : numtok -> option num] (None = "number out of range").
   The parser shipped in /repo (serde_json WITHOUT the float_roundtrip feature) is transcribed
   below as [sj_float_of_tok]; with the feature the conversion is correctly rounded.        *)
From Coq Require Import String Ascii List ZArith Bool.
Require Import Blots.Num Blots.Json.
Import ListNotations.
Open Scope Z_scope.

Definition byte (c : ascii) : Z := Z.of_N (N_of_ascii c).
Definition chr (z : Z) : ascii := ascii_of_N (Z.to_N z).
Definition ch (s : string) : ascii := match s with String c _ => c | EmptyString => zero end.

Definition QUOTE : ascii := chr 34.
Definition BSLASH : ascii := chr 92.
Definition str1 (c : ascii) : string := String c EmptyString.

(* ------------------------------------------------------------------ number tokens *)
(* -?int[.frac][e[-]exp] as digit lists (most significant first) *)
Record numtok := NumTok {
  t_neg : bool;
  t_int : list Z;
  t_frac : option (list Z);
  t_exp : option (bool * list Z)       (* (negative exponent sign, digits) *)
}.

Definition digit_char (d : Z) : ascii := chr (48 + d).
Fixpoint digits_str (l : list Z) : string :=
  match l with [] => EmptyString | d :: r => String (digit_char d) (digits_str r) end.
Fixpoint digits_val (acc : Z) (l : list Z) : Z :=
  match l with [] => acc | d :: r => digits_val (acc * 10 + d) r end.

(* the text of a token: serde_json/ryu write a negative exponent as e-7, a positive one as e21 *)
Definition render_tok (t : numtok) : string :=
  ((if t_neg t then "-" else "") ++ digits_str (t_int t)
   ++ match t_frac t with Some f => "." ++ digits_str f | None => "" end
   ++ match t_exp t with
      | Some (s, e) => "e" ++ (if s then "-" else "") ++ digits_str e
      | None => ""
      end)%string.

(* decimal digits of a non-negative integer (itoa) *)
Fixpoint dec_list (fuel : nat) (z : Z) (acc : list Z) : list Z :=
  match fuel with
  | O => acc
  | S f => if z / 10 =? 0 then (z mod 10) :: acc else dec_list f (z / 10) ((z mod 10) :: acc)
  end.
Definition digits_of (z : Z) : list Z := dec_list 40 z [].

Definition tok_of_jnumber (fmt_pieces : num -> numtok) (n : jnumber) : numtok :=
  match n with
  | JPosInt z => NumTok false (digits_of z) None None
  | JNegInt z => NumTok true (digits_of (- z)) None None
  | JFloat x => fmt_pieces x
  end.

(* ------------------------------------------------------------------ the serialiser *)
(* ser.rs format_escaped_str_contents: ESCAPE table *)
Definition escape_byte (c : ascii) : string :=
  let n := byte c in
  if n =? 34 then String BSLASH (str1 QUOTE)
  else if n =? 92 then String BSLASH (str1 BSLASH)
  else if n =? 8 then String BSLASH (str1 "b")
  else if n =? 12 then String BSLASH (str1 "f")
  else if n =? 10 then String BSLASH (str1 "n")
  else if n =? 13 then String BSLASH (str1 "r")
  else if n =? 9 then String BSLASH (str1 "t")
  else if n <? 32 then
    String BSLASH (String "u" (String "0" (String "0"
      (String (hexdigit (n / 16)) (str1 (hexdigit (n mod 16)))))))
  else str1 c.
Fixpoint escape_str (s : string) : string :=
  match s with
  | EmptyString => EmptyString
  | String c r => (escape_byte c ++ escape_str r)%string
  end.
Definition print_str (s : string) : string := String QUOTE (escape_str s ++ str1 QUOTE)%string.

Section Print.
  Variable fmt_pieces : num -> numtok.
  Fixpoint jprint (j : json) : string :=
    match j with
    | JNull => "null"
    | JBool true => "true"
    | JBool false => "false"
    | JNum n => render_tok (tok_of_jnumber fmt_pieces n)
    | JStr s => print_str s
    | JArr l =>
        ("[" ++ (fix items (l : list json) : string :=
                   match l with
                   | [] => ""
                   | [x] => jprint x
                   | x :: r => jprint x ++ "," ++ items r
                   end) l ++ "]")%string
    | JObj m =>
        ("{" ++ (fix members (m : list (string * json)) : string :=
                   match m with
                   | [] => ""
                   | [(k, x)] => print_str k ++ ":" ++ jprint x
                   | (k, x) :: r => print_str k ++ ":" ++ jprint x ++ "," ++ members r
                   end) m ++ "}")%string
    end.
End Print.

(* ------------------------------------------------------------------ the parser *)
Definition is_ws (c : ascii) : bool :=
  let n := byte c in (n =? 32) || (n =? 10) || (n =? 9) || (n =? 13).
Fixpoint skip_ws (s : string) : string :=
  match s with
  | String c r => if is_ws c then skip_ws r else s
  | EmptyString => s
  end.
Definition is_digit (c : ascii) : bool := let n := byte c in (48 <=? n) && (n <=? 57).
Fixpoint span_digits (s : string) : list Z * string :=
  match s with
  | String c r => if is_digit c then let '(d, rest) := span_digits r in (byte c - 48 :: d, rest)
                  else ([], s)
  | EmptyString => ([], s)
  end.

(* hex digit value (read.rs HEX table: both cases) *)
Definition hex_val (c : ascii) : option Z :=
  let n := byte c in
  if (48 <=? n) && (n <=? 57) then Some (n - 48)
  else if (97 <=? n) && (n <=? 102) then Some (n - 87)
  else if (65 <=? n) && (n <=? 70) then Some (n - 55)
  else None.
Definition hex4 (a b c d : ascii) : option Z :=
  match hex_val a, hex_val b, hex_val c, hex_val d with
  | Some x, Some y, Some z, Some w => Some (((x * 16 + y) * 16 + z) * 16 + w)
  | _, _, _, _ => None
  end.
(* push_wtf8_codepoint *)
Definition utf8_encode (n : Z) (tail : string) : string :=
  if n <? 128 then String (chr n) tail
  else if n <? 2048 then String (chr (192 + n / 64)) (String (chr (128 + n mod 64)) tail)
  else if n <? 65536 then
    String (chr (224 + n / 4096)) (String (chr (128 + (n / 64) mod 64)) (String (chr (128 + n mod 64)) tail))
  else
    String (chr (240 + n / 262144)) (String (chr (128 + (n / 4096) mod 64))
      (String (chr (128 + (n / 64) mod 64)) (String (chr (128 + n mod 64)) tail))).

Definition simple_escape (e : ascii) : option ascii :=
  let n := byte e in
  if n =? 34 then Some QUOTE            (* quote *)
  else if n =? 92 then Some BSLASH      (* backslash *)
  else if n =? 47 then Some (chr 47)    (* escape / *)
  else if n =? 98 then Some (chr 8)     (* escape b *)
  else if n =? 102 then Some (chr 12)   (* escape f *)
  else if n =? 110 then Some (chr 10)   (* escape n *)
  else if n =? 114 then Some (chr 13)   (* escape r *)
  else if n =? 116 then Some (chr 9)    (* escape t *)
  else None.

(* the string body after the opening quote (read.rs parse_str_bytes + parse_escape with
   validate = true).  The input is a Rust &str, i.e. valid UTF-8: bytes >= 0x80 are copied. *)
Fixpoint parse_str (s : string) : option (string * string) :=
  match s with
  | EmptyString => None                                      (* EofWhileParsingString *)
  | String c r =>
      if byte c =? 34 then Some (EmptyString, r)
      else if byte c =? 92 then
        match r with
        | EmptyString => None
        | String e r1 =>
            match simple_escape e with
            | Some b =>
                match parse_str r1 with
                | Some (t, rest) => Some (String b t, rest)
                | None => None
                end
            | None =>
                if byte e =? 117 then                        (* escape u *)
                  match r1 with
                  | String h1 (String h2 (String h3 (String h4 r2))) =>
                      match hex4 h1 h2 h3 h4 with
                      | None => None
                      | Some n1 =>
                          if (56320 <=? n1) && (n1 <=? 57343) then None   (* lone trailing surrogate *)
                          else if (55296 <=? n1) && (n1 <=? 56319) then
                            match r2 with
                            | String b1 (String u1 (String g1 (String g2 (String g3 (String g4 r3))))) =>
                                if (byte b1 =? 92) && (byte u1 =? 117) then
                                  match hex4 g1 g2 g3 g4 with
                                  | None => None
                                  | Some n2 =>
                                      if (56320 <=? n2) && (n2 <=? 57343) then
                                        match parse_str r3 with
                                        | Some (t, rest) =>
                                            Some (utf8_encode (((n1 - 55296) * 1024 + (n2 - 56320)) + 65536) t, rest)
                                        | None => None
                                        end
                                      else None
                                  end
                                else None
                            | _ => None
                            end
                          else
                            match parse_str r2 with
                            | Some (t, rest) => Some (utf8_encode n1 t, rest)
                            | None => None
                            end
                      end
                  | _ => None
                  end
                else None                                    (* InvalidEscape *)
            end
        end
      else if byte c <? 32 then None                         (* ControlCharacterWhileParsingString *)
      else
        match parse_str r with
        | Some (t, rest) => Some (String c t, rest)
        | None => None
        end
  end.

Definition U64_MAX' : Z := 2 ^ 64 - 1.

Section Parse.
  Variable float_of_tok : numtok -> option num.

  (* de.rs parse_integer / parse_number / parse_decimal / parse_exponent as a scanner of the
     JSON number grammar, then the classification into U64 / I64 / F64 *)
  Definition scan_number (s : string) : option (numtok * string) :=
    let neg := byte (ch s) =? 45 in
    let s1 := if neg then match s with String _ r => r | _ => s end else s in
    let '(ip, r1) := span_digits s1 in
    match ip with
    | [] => None                                             (* InvalidNumber *)
    | d0 :: more =>
        if (d0 =? 0) && negb (match more with [] => true | _ => false end) then None  (* leading 0 *)
        else
          let frac :=
            if byte (ch r1) =? 46 then
              match r1 with
              | String _ r1' => let '(fp, r2) := span_digits r1' in
                                match fp with [] => None | _ => Some (Some fp, r2) end
              | _ => None
              end
            else Some (None, r1) in
          match frac with
          | None => None
          | Some (fp, r2) =>
              if (byte (ch r2) =? 101) || (byte (ch r2) =? 69) then
                match r2 with
                | String _ r2' =>
                    let sgn := byte (ch r2') in
                    let r3 := if (sgn =? 43) || (sgn =? 45) then match r2' with String _ r => r | _ => r2' end
                              else r2' in
                    let '(ep, r4) := span_digits r3 in
                    match ep with
                    | [] => None
                    | _ => Some (NumTok neg ip fp (Some (sgn =? 45, ep)), r4)
                    end
                | _ => None
                end
              else Some (NumTok neg ip fp None, r2)
          end
    end.

  Definition classify_number (t : numtok) : option jnumber :=
    match t_frac t, t_exp t with
    | None, None =>
        let n := digits_val 0 (t_int t) in
        if negb (t_neg t) then
          if n <=? U64_MAX' then Some (JPosInt n) else option_map JFloat (float_of_tok t)
        else if (n =? 0) || (2 ^ 63 <? n) then option_map JFloat (float_of_tok t)
        else Some (JNegInt (- n))
    | _, _ => option_map JFloat (float_of_tok t)
    end.

  Definition parse_number (s : string) : option (jnumber * string) :=
    match scan_number s with
    | Some (t, rest) => match classify_number t with Some n => Some (n, rest) | None => None end
    | None => None
    end.

  Fixpoint drop (n : nat) (s : string) : string :=
    match n, s with
    | S n', String _ r => drop n' r
    | _, _ => s
    end.
  (* parse_ident: the literal must follow byte for byte *)
  Fixpoint lit (p s : string) : option string :=
    match p with
    | EmptyString => Some s
    | String a p' =>
        match s with
        | String b s' => if Ascii.eqb a b then lit p' s' else None
        | EmptyString => None
        end
    end.

  (* de.rs deserialize_any + SeqAccess/MapAccess; [rd] is remaining_depth (starts at 128; entering
     a container decrements it and fails when it reaches 0); [fuel] only makes the recursion
     structural (length of the input + 1 always suffices). *)
  Fixpoint parse_value (fuel : nat) (rd : nat) (s : string) : option (json * string) :=
    match fuel with
    | O => None
    | S f =>
        let s := skip_ws s in
        match s with
        | EmptyString => None
        | String c r =>
            let n := byte c in
            if n =? 110 then match lit "null" s with Some r' => Some (JNull, r') | None => None end
            else if n =? 116 then match lit "true" s with Some r' => Some (JBool true, r') | None => None end
            else if n =? 102 then match lit "false" s with Some r' => Some (JBool false, r') | None => None end
            else if n =? 34 then
              match parse_str r with Some (t, r') => Some (JStr t, r') | None => None end
            else if n =? 91 then                             (* [ *)
              match rd with
              | S (S rd') =>
                  let r0 := skip_ws r in
                  if byte (ch r0) =? 93 then Some (JArr [], drop 1 r0)
                  else
                    (fix elems (k : nat) (s : string) : option (json * string) :=
                       match k with
                       | O => None
                       | S k' =>
                           match parse_value f (S rd') s with
                           | None => None
                           | Some (x, r1) =>
                               let r1 := skip_ws r1 in
                               if byte (ch r1) =? 44 then
                                 match elems k' (drop 1 r1) with
                                 | Some (JArr xs, r2) => Some (JArr (x :: xs), r2)
                                 | _ => None
                                 end
                               else if byte (ch r1) =? 93 then Some (JArr [x], drop 1 r1)
                               else None
                           end
                       end) f r0
              | _ => None                                    (* RecursionLimitExceeded *)
              end
            else if n =? 123 then                            (* { *)
              match rd with
              | S (S rd') =>
                  let r0 := skip_ws r in
                  if byte (ch r0) =? 125 then Some (JObj [], drop 1 r0)
                  else
                    (fix members (k : nat) (s : string) : option (json * string) :=
                       match k with
                       | O => None
                       | S k' =>
                           let s := skip_ws s in
                           if byte (ch s) =? 34 then
                             match parse_str (drop 1 s) with
                             | None => None
                             | Some (key, r1) =>
                                 let r1 := skip_ws r1 in
                                 if byte (ch r1) =? 58 then
                                   match parse_value f (S rd') (drop 1 r1) with
                                   | None => None
                                   | Some (x, r2) =>
                                       let r2 := skip_ws r2 in
                                       if byte (ch r2) =? 44 then
                                         match members k' (drop 1 r2) with
                                         | Some (JObj xs, r3) => Some (JObj ((key, x) :: xs), r3)
                                         | _ => None
                                         end
                                       else if byte (ch r2) =? 125 then Some (JObj [(key, x)], drop 1 r2)
                                       else None
                                   end
                                 else None
                             end
                           else None                         (* KeyMustBeAString / trailing comma *)
                       end) f r0
              | _ => None
              end
            else if (n =? 45) || is_digit c then
              match parse_number s with Some (x, r') => Some (JNum x, r') | None => None end
            else None
        end
    end.

  (* serde_json::from_str::<Value>: one value, then only whitespace.  The result is the
     DOCUMENT (members in text order); serde_json inserts them into its Map: Json.sj_build. *)
  Definition json_from_str (s : string) : option json :=
    match parse_value (S (String.length s)) 128 s with
    | Some (j, rest) => match skip_ws rest with EmptyString => Some j | _ => None end
    | None => None
    end.
End Parse.

(* ------------------------------------------------------------------ the shipped number parser *)
(* de.rs without float_roundtrip.  overflow!(a * 10 + b, c) *)
Definition sj_overflow (a b c : Z) : bool := (c / 10 <=? a) && ((c / 10 <? a) || (c mod 10 <? b)).
Definition I32_MAX' : Z := 2 ^ 31 - 1.
Definition I32_MIN' : Z := - 2 ^ 31.
Definition pow10 (k : Z) : num := num_of_Z (10 ^ k).        (* POW10[k]: the literal 1e<k> *)

(* f64_from_parts: f = significand as f64; then one multiplication or division by POW10[|e|]
   (|e| <= 308), otherwise repeated division by 1e308 *)
Fixpoint sj_from_parts_loop (fuel : nat) (f : num) (exponent : Z) : option num :=
  match fuel with
  | O => None
  | S fu =>
      let idx := Z.abs exponent in
      if (idx <? 309) && negb (exponent =? I32_MIN') then
        if 0 <=? exponent then
          let f' := nmul f (pow10 idx) in
          if is_inf f' then None else Some f'
        else Some (ndiv f (pow10 idx))
      else if neqb f nzero then Some f
      else if 0 <=? exponent then None
      else sj_from_parts_loop fu (ndiv f (pow10 308)) (exponent + 308)
  end.
Definition sj_f64_from_parts (positive : bool) (significand exponent : Z) : option num :=
  match sj_from_parts_loop 16 (num_of_Z significand) exponent with
  | Some f => Some (if positive then f else nneg f)
  | None => None
  end.

(* parse_exponent (digits already scanned) *)
Fixpoint sj_exp_digits (exp : Z) (l : list Z) : option Z :=      (* None = i32 overflow *)
  match l with
  | [] => Some exp
  | d :: r => if sj_overflow exp d I32_MAX' then None else sj_exp_digits (exp * 10 + d) r
  end.
Definition sj_parse_exponent (positive : bool) (significand starting_exp : Z) (e : bool * list Z)
  : option num :=
  let '(neg_exp, ds) := e in
  match ds with
  | [] => None
  | d0 :: r =>
      match sj_exp_digits d0 r with
      | None =>                                                   (* parse_exponent_overflow *)
          if negb (significand =? 0) && negb neg_exp then None
          else Some (if positive then nzero else nnzero)
      | Some exp =>
          let final_exp := if neg_exp then Z.max I32_MIN' (starting_exp - exp)
                           else Z.min I32_MAX' (starting_exp + exp) in
          sj_f64_from_parts positive significand final_exp
      end
  end.
(* parse_decimal: fraction digits are accumulated into the u64 significand until one does not
   fit; the remaining ones are dropped (parse_decimal_overflow) *)
Fixpoint sj_frac_digits (sig : Z) (after : Z) (l : list Z) : Z * Z :=
  match l with
  | [] => (sig, after)
  | d :: r => if sj_overflow sig d U64_MAX' then (sig, after) else sj_frac_digits (sig * 10 + d) (after - 1) r
  end.
(* parse_integer: digits into the significand until one does not fit; from there on
   (parse_long_integer) every integer digit only bumps the exponent *)
Fixpoint sj_int_digits (sig : Z) (l : list Z) : Z * Z :=
  match l with
  | [] => (sig, 0)
  | d :: r => if sj_overflow sig d U64_MAX' then (sig, Z.of_nat (List.length l)) else sj_int_digits (sig * 10 + d) r
  end.
Definition sj_float_of_tok (t : numtok) : option num :=
  let positive := negb (t_neg t) in
  let '(sig0, e0) := match t_int t with
                     | [] => (0, 0)
                     | d0 :: r => sj_int_digits d0 r
                     end in
  let '(sig, e1) := match t_frac t with
                    | Some f => let '(s, a) := sj_frac_digits sig0 0 f in (s, e0 + a)
                    | None => (sig0, e0)
                    end in
  match t_exp t with
  | Some e => sj_parse_exponent positive sig e1 e
  | None =>
      match t_frac t with
      | None =>
          if (e0 =? 0) && t_neg t then
            (* parse_number, negative integer that does not fit i64, or -0 *)
            Some (nneg (num_of_Z sig))
          else sj_f64_from_parts positive sig e1
      | Some _ => sj_f64_from_parts positive sig e1
      end
  end.

(* ------------------------------------------------------------------ stream runners *)
Open Scope string_scope.
Definition show_oj (o : option json) : string :=
  match o with Some j => "OK:" ++ show_json j | None => "ERR" end.
(* TEXT-parse stream: the shipped build *)
Definition c06_parse_line (s : string) : string :=
  show_oj (option_map sj_build (json_from_str sj_float_of_tok s)).
(* number token stream: scan, re-render, classify with the shipped conversion *)
Definition c06_num_line (s : string) : string :=
  match scan_number s with
  | Some (t, rest) =>
      hex_of_string (render_tok t) ++ " "
      ++ match classify_number sj_float_of_tok t with Some n => show_json (JNum n) | None => "ERR" end
  | None => "NOSCAN"
  end.
(* TEXT-print stream: the float texts are supplied by the implementation (ryu is an oracle):
   a table from bit patterns to scanned tokens *)
Definition table_fmt (t : list (Z * string)) (x : num) : numtok :=
  let b := bits_of_num x in
  match (fix find (t : list (Z * string)) : option string :=
           match t with
           | [] => None
           | (k, s) :: r => if Z.eqb k b then Some s else find r
           end) t with
  | Some s => match scan_number s with Some (tk, _) => tk | None => NumTok false [] None None end
  | None => NumTok false [] None None
  end.
