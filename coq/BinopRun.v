(* BinopRun.v — running [eval_binop] for the C11 correspondence (vm_compute inside coqc).
   Definitions only.  Output format = harness/src/s_c11.rs `c11-binop`: the outcomes of the 17
   broadcasting operators followed by the 6 dot operators, joined by "|".
   The callback oracle is instantiated by "Unmodelled" (the C11 stream never applies via / into /
   where); powf is a finite lookup table produced by the harness with the same std function
   (`c11-powf`), and a miss yields a sentinel no real result has, so a missing entry shows up as a
   correspondence mismatch (fail closed). *)
From Coq Require Import String Ascii List ZArith Bool FMapPositive.
Require Import Blots.Num Blots.gen.Builtins Blots.Ast Blots.Value Blots.Outcome Blots.Show Blots.Binop
  Blots.BinopSpec.
Import ListNotations.
Open Scope string_scope.

Definition ops23 : list binop :=
  [Add; Subtract; Multiply; Divide; Modulo; Power; Equal; NotEqual; Less; LessEq; Greater; GreaterEq;
   And; NaturalAnd; Or; NaturalOr; Coalesce;
   DotEqual; DotNotEqual; DotLess; DotLessEq; DotGreater; DotGreaterEq].

Definition powf_miss : num := num_of_bits 0x0123456789abcdef.
Fixpoint powf_lookup (tab : list (Z * Z * Z)) (x y : Z) : num :=
  match tab with
  | [] => powf_miss
  | (a, b, r) :: t => if Z.eqb a x && Z.eqb b y then num_of_bits r else powf_lookup t x y
  end.
Definition powf_of_table (tab : list (Z * Z * Z)) (x y : num) : num :=
  powf_lookup tab (bits_of_num x) (bits_of_num y).

(* the same table as a two-level positive trie (lookup cost independent of the table size) *)
Definition ptab := PositiveMap.t (PositiveMap.t Z).
Definition pkey (z : Z) : positive := Z.to_pos (z + 1).
Definition ptab_add (t : ptab) (e : Z * Z * Z) : ptab :=
  let '(x, y, r) := e in
  let inner := match PositiveMap.find (pkey x) t with Some m => m | None => PositiveMap.empty Z end in
  PositiveMap.add (pkey x) (PositiveMap.add (pkey y) r inner) t.
Definition ptab_of_list (l : list (Z * Z * Z)) : ptab := fold_left ptab_add l (PositiveMap.empty _).
Definition powf_of_ptab (t : ptab) (x y : num) : num :=
  match PositiveMap.find (pkey (bits_of_num x)) t with
  | Some m => match PositiveMap.find (pkey (bits_of_num y)) m with
              | Some r => num_of_bits r
              | None => powf_miss
              end
  | None => powf_miss
  end.

Definition call_unmodelled (_ _ : value) (_ : list value) (st : unit) : outcome value * unit :=
  (Unmodelled, st).

Definition run_binop (powf : num -> num -> num) (op : binop) (a b : value) : outcome value :=
  fst (eval_binop unit call_unmodelled fn_accepts2_of_value powf op a b tt).

(* fast twin of Num.show_num / Show.show_value (the shared printer divides a 64-bit Z by 16
   sixteen times per number, ~0.4 ms under vm_compute; this one walks the bits of the positive).
   Same text, see the Examples at the end; any difference would surface as a correspondence
   mismatch on every number. *)
Definition hexd (b3 b2 b1 b0 : bool) : ascii :=
  match b3, b2, b1, b0 with
  | false, false, false, false => "0" | false, false, false, true => "1"
  | false, false, true, false => "2" | false, false, true, true => "3"
  | false, true, false, false => "4" | false, true, false, true => "5"
  | false, true, true, false => "6" | false, true, true, true => "7"
  | true, false, false, false => "8" | true, false, false, true => "9"
  | true, false, true, false => "a" | true, false, true, true => "b"
  | true, true, false, false => "c" | true, true, false, true => "d"
  | true, true, true, false => "e" | true, true, true, true => "f"
  end%char.
Fixpoint bits_lsb (n : nat) (p : option positive) : list bool :=
  match n with
  | O => []
  | S n' =>
      match p with
      | None => false :: bits_lsb n' None
      | Some xH => true :: bits_lsb n' None
      | Some (xO q) => false :: bits_lsb n' (Some q)
      | Some (xI q) => true :: bits_lsb n' (Some q)
      end
  end.
Fixpoint hex_msb (bits : list bool) (acc : string) : string :=
  match bits with
  | b0 :: b1 :: b2 :: b3 :: r => hex_msb r (String (hexd b3 b2 b1 b0) acc)
  | _ => acc
  end.
Definition hex16_fast (z : Z) : string :=
  hex_msb (bits_lsb 64 (match z with Zpos p => Some p | _ => None end)) "".
Definition show_num_fast (x : num) : string := hex16_fast (bits_of_num x).

Fixpoint show_value_fast (v : value) : string :=
  match v with
  | VNum x => "N" ++ show_num_fast x
  | VBool true => "T"
  | VBool false => "F"
  | VNull => "U"
  | VStr s => "S" ++ hex_of_string s ++ ";"
  | VList l => "L[" ++ join "," (map show_value_fast l) ++ "]"
  | VRec r =>
      "R{" ++ join "," (map (fun kv => hex_of_string (fst kv) ++ ":" ++ show_value_fast (snd kv)) r) ++ "}"
  | VLam id args _ _ => "FN(" ++ join "," (map show_arg args) ++ ")"
  | VBuiltin b => "B" ++ builtin_name b ++ ";"
  | VSpread x => "X" ++ show_value_fast x
  end.

Definition show_outcome (o : outcome value) : string :=
  match o with
  | Ok v => "OK:" ++ show_value_fast v
  | Err => "ERR"
  | ErrDepth => "ERRDEPTH"
  | Panic => "PANIC"
  | Unmodelled => "UNMODELLED"
  end.

Definition show_all (powf : num -> num -> num) (a b : value) : string :=
  join "|" (map (fun op => show_outcome (run_binop powf op a b)) ops23).

(* the same through the SPEC (broadcast_spec for the 17, scalar_op for the dot operators):
   used by the check to cross-run spec and transcription on the generated cases *)
Definition spec_binop (powf : num -> num -> num) (op : binop) (a b : value) : outcome value :=
  if is_dot op then scalar_op powf op a b else broadcast_spec powf op a b.
Definition show_all_spec (powf : num -> num -> num) (a b : value) : string :=
  join "|" (map (fun op => show_outcome (spec_binop powf op a b)) ops23).

(* several operand pairs per vm_compute command (the per-command overhead is ~6 ms) *)
Definition show_many (powf : num -> num -> num) (cases : list (value * value)) : string :=
  join "~" (map (fun c => show_all powf (fst c) (snd c)) cases).
Definition show_many_spec (powf : num -> num -> num) (cases : list (value * value)) : string :=
  join "~" (map (fun c => show_all_spec powf (fst c) (snd c)) cases).

(* printing ~1 kB of text per operand pair is what costs under coqc: decide agreement with the
   implementation's text inside the VM and print one character per pair ("1" agree / "0" differ);
   the differing pairs are then re-run with show_many to report the model's answer *)
Definition agree_many (powf : num -> num -> num) (cases : list (value * value * string)) : string :=
  String.concat "" (map (fun c => if String.eqb (show_all powf (fst (fst c)) (snd (fst c))) (snd c)
                                  then "1" else "0") cases).
Definition agree_spec_many (powf : num -> num -> num) (cases : list (value * value)) : string :=
  String.concat "" (map (fun c => if String.eqb (show_all_spec powf (fst c) (snd c)) (show_all powf (fst c) (snd c))
                                  then "1" else "0") cases).

(* ... and cheaper still: the implementation's answers are parsed back (checks/c11.py) into value
   TERMS built from named constants, and compared structurally and exactly with the model's
   outcomes (numbers by bit pattern, NaN canonical; strings, list elements, record entries in
   order; function values never occur in C11 results and compare unequal: fail closed) *)
Fixpoint value_same (a b : value) {struct a} : bool :=
  match a, b with
  | VNum x, VNum y => Z.eqb (bits_of_num x) (bits_of_num y)
  | VBool x, VBool y => Bool.eqb x y
  | VNull, VNull => true
  | VStr x, VStr y => String.eqb x y
  | VList l, VList m =>
      (fix go (l m : list value) {struct l} : bool :=
         match l, m with
         | [], [] => true
         | x :: l', y :: m' => value_same x y && go l' m'
         | _, _ => false
         end) l m
  | VRec r, VRec s =>
      (fix go (r s : list (string * value)) {struct r} : bool :=
         match r, s with
         | [], [] => true
         | (k, x) :: r', (k2, y) :: s' => String.eqb k k2 && value_same x y && go r' s'
         | _, _ => false
         end) r s
  | VBuiltin x, VBuiltin y => builtin_eqb x y
  | _, _ => false
  end.
Definition outcome_same (a b : outcome value) : bool :=
  match a, b with
  | Ok x, Ok y => value_same x y
  | Err, Err | ErrDepth, ErrDepth | Panic, Panic | Unmodelled, Unmodelled => true
  | _, _ => false
  end.
Fixpoint all_same (l m : list (outcome value)) : bool :=
  match l, m with
  | [], [] => true
  | x :: l', y :: m' => outcome_same x y && all_same l' m'
  | _, _ => false
  end.
Definition agree_many_v (powf : num -> num -> num) (cases : list (value * value * list (outcome value)))
  : string :=
  String.concat "" (map (fun c =>
    if all_same (map (fun op => run_binop powf op (fst (fst c)) (snd (fst c))) ops23) (snd c)
    then "1" else "0") cases).

Example show_value_fast_same :
  let vs := [VNum (nb 0x3ff0000000000000); VNum (nb 0xfff0000000000000); VNum nnan; VNum nnzero;
             VNum (nb 0x0000000000000001); VNum (nb 0x7fefffffffffffff); VNum (nb 0x0123456789abcdef);
             VList [VStr "a"; VNull; VBool true; VRec [("k", VNum (nb 0xc004000000000000))]]] in
  map show_value_fast vs = map (show_value None) vs.
Proof. vm_compute. reflexivity. Qed.
