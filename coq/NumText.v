(* NumText.v — C16: numbers and their texts.  Definitions only (proofs in proofs/NumText*.v).

   1. rn_decimal        exact correctly-rounded decimal -> binary64 (the reference every
                        text->double conversion is measured against), over Z with
                        SpecFloat.binary_round / SFdiv_core_binary / binary_round_aux.
   2. Library contracts Rust `str::parse::<f64>` grammar (rust_float_syntax) and its reference
                        value; `{:.0}` of an integral value (exact integer digits); Rust `Display`
                        and ryu/serde_json number text (shortest round-trip digits, Dragon4 over Z)
                        — executable references used by the correspondence; in the theorems the
                        library functions are Section variables.
   3. The repo's own logic, transcribed:
        grammar.pest  number / binary_number / hex_number / decimal_number / integer ...
        expressions.rs pairs_to_expr_inner, arm Rule::number (radix via i64::from_str_radix,
                       `_` erasure, decimal via str::parse::<f64>), prefix negation
        ast_to_source.rs / formatter.rs   the `fract()==0 && abs()<1e15` split  (print_num)
        functions.rs  to_string / to_number on numbers and strings
        values.rs     to_json / from_json number mapping
        serde_json 1.0.145 de.rs number parser, both without (shipped) and with float_roundtrip *)
From Coq Require Import ZArith Floats.SpecFloat Bool List String Ascii.
Require Import Blots.Num Blots.Outcome Blots.gen.Builtins Blots.Ast.
Import ListNotations.
Open Scope Z_scope.

(* ------------------------------------------------------------------ characters, strings *)
(* the byte value; via N (binary), not nat: these run under vm_compute on long texts *)
Definition acode (c : ascii) : Z := Z.of_N (N_of_ascii c).
Definition is_digit (c : ascii) : bool := let n := acode c in (48 <=? n) && (n <=? 57).
Definition digit_val (c : ascii) : Z := acode c - 48.
Definition is_alpha (c : ascii) : bool :=
  ((65 <=? acode c) && (acode c <=? 90)) || ((97 <=? acode c) && (acode c <=? 122)).
Definition lower_c (c : ascii) : ascii :=
  if (65 <=? acode c) && (acode c <=? 90) then ascii_of_N (N_of_ascii c + 32) else c.
Fixpoint lower_s (s : string) : string :=
  match s with EmptyString => EmptyString | String c r => String (lower_c c) (lower_s r) end.
Definition slen (s : string) : Z := Z.of_nat (String.length s).
Definition is_empty (s : string) : bool := match s with EmptyString => true | _ => false end.
Fixpoint all_digits (s : string) : bool :=
  match s with EmptyString => true | String c r => is_digit c && all_digits r end.

(* longest prefix of ASCII digits, and the rest *)
Fixpoint span_digits (s : string) : string * string :=
  match s with
  | String c r => if is_digit c then let '(d, t) := span_digits r in (String c d, t) else (EmptyString, s)
  | EmptyString => (EmptyString, EmptyString)
  end.
(* value of a digit string, most significant first *)
Fixpoint digits_val (s : string) (acc : Z) : Z :=
  match s with EmptyString => acc | String c r => digits_val r (acc * 10 + digit_val c) end.

(* decimal digits of a non-negative integer (no leading zeros; "0" for 0) *)
Definition dchar (d : Z) : ascii := ascii_of_N (Z.to_N (48 + d)).
Fixpoint Z_digits_fuel (fuel : nat) (z : Z) (acc : string) : string :=
  match fuel with
  | O => acc
  | S f => let acc' := String (dchar (z mod 10)) acc in
           if z <? 10 then acc' else Z_digits_fuel f (z / 10) acc'
  end.
Definition Z_to_dec (z : Z) : string := Z_digits_fuel (S (Z.to_nat (Z.log2 z))) z EmptyString.
Fixpoint zeros (n : nat) : string := match n with O => EmptyString | S k => String "0" (zeros k) end.
Definition drop_first (s : string) : string := match s with String _ r => r | _ => s end.
Fixpoint take (n : nat) (s : string) : string :=
  match n, s with S k, String c r => String c (take k r) | _, _ => EmptyString end.
Fixpoint drop (n : nat) (s : string) : string :=
  match n, s with S k, String _ r => drop k r | _, _ => s end.
Fixpoint remove_char (x : ascii) (s : string) : string :=
  match s with
  | EmptyString => EmptyString
  | String c r => if Ascii.eqb c x then remove_char x r else String c (remove_char x r)
  end.
(* str::strip_prefix / str::starts_with *)
Fixpoint strip_prefix (p s : string) : option string :=
  match p with
  | EmptyString => Some s
  | String a p' =>
      match s with
      | String b s' => if Ascii.eqb a b then strip_prefix p' s' else None
      | EmptyString => None
      end
  end.
Definition starts_with (p s : string) : bool :=
  match strip_prefix p s with Some _ => true | None => false end.

(* ------------------------------------------------------------------ 1. rn_decimal *)
Definition with_sign (s : bool) (x : num) : num := if s then SFopp x else x.

(* nearest double (ties to even) of the positive rational n/d *)
Definition rn_ratio (n d : positive) : num :=
  let '(q, e, l) := SFdiv_core_binary prec emax (Zpos n) 0 (Zpos d) 0 in
  binary_round_aux prec emax false q e l.

(* nearest double of m * 10^e, m > 0.  The two guards only avoid building astronomically
   large powers of ten: 10^401 > 2^1024 overflows for every m >= 1, and
   m < 2^(log2 m + 1) <= 10^(log2 m + 1), so e < -(400 + log2 m) gives a value below 10^-400,
   far below half the least subnormal. *)
Definition rn_pos (m : positive) (e : Z) : num :=
  if 400 <? e then S754_infinity false
  else if e <? - (400 + Z.log2 (Zpos m)) then S754_zero false
  else if 0 <=? e then
    match Zpos m * 10 ^ e with Zpos p => binary_round prec emax false p 0 | _ => S754_nan end
  else
    match 10 ^ (- e) with Zpos d => rn_ratio m d | _ => S754_nan end.

(* (-1)^s * m * 10^e, m >= 0, correctly rounded; the sign of zero is kept *)
Definition rn_decimal (s : bool) (m e : Z) : num :=
  match m with
  | Z0 => S754_zero s
  | Zpos p => with_sign s (rn_pos p e)
  | Zneg _ => S754_nan
  end.

(* ------------------------------------------------------------------ 2a. Rust f64::from_str *)
(* core::num::dec2flt grammar:
     Float  ::= Sign? ( 'inf' | 'infinity' | 'nan' | Number )      (case-insensitive words)
     Number ::= ( Digit+ | Digit+ '.' Digit* | Digit* '.' Digit+ ) Exp?
     Exp    ::= [eE] Sign? Digit+                                                   *)
Inductive fnum := FInf (s : bool) | FNan | FDec (s : bool) (m e : Z).

Definition split_sign (t : string) : bool * string :=
  match t with
  | String "-" r => (true, r)
  | String "+" r => (false, r)
  | _ => (false, t)
  end.

(* mantissa part `Digit* ('.' Digit* )?` with at least one digit: (int digits, frac digits, rest) *)
Definition scan_mantissa (r : string) : option (string * string * string) :=
  let '(ip, r1) := span_digits r in
  let '(fp, r2) := match r1 with
                   | String "." r' => span_digits r'
                   | _ => (EmptyString, r1)
                   end in
  if is_empty ip && is_empty fp then None else Some (ip, fp, r2).

(* exponent part: `[eE] Sign? Digit+` up to the end of the text *)
Definition scan_exponent (r2 : string) : option Z :=
  match r2 with
  | EmptyString => Some 0
  | String c r3 =>
      if Ascii.eqb (lower_c c) "e" then
        let '(es, r4) := split_sign r3 in
        let '(ed, r5) := span_digits r4 in
        if is_empty ed || negb (is_empty r5) then None
        else Some (if es then - digits_val ed 0 else digits_val ed 0)
      else None
  end.

Definition rust_float_unsigned (s : bool) (r : string) : option fnum :=
  let lr := lower_s r in
  if String.eqb lr "inf" || String.eqb lr "infinity" then Some (FInf s)
  else if String.eqb lr "nan" then Some FNan
  else match scan_mantissa r with
       | None => None
       | Some (ip, fp, r2) =>
           match scan_exponent r2 with
           | None => None
           | Some ex => Some (FDec s (digits_val (ip ++ fp) 0) (ex - slen fp))
           end
       end.
Definition rust_float_syntax (t : string) : option fnum :=
  let '(s, r) := split_sign t in rust_float_unsigned s r.

Definition fnum_value (f : fnum) : num :=
  match f with
  | FInf s => S754_infinity s
  | FNan => S754_nan
  | FDec s m e => rn_decimal s m e
  end.

(* the documented contract of str::parse::<f64>: accepts exactly the grammar, correctly rounded *)
Definition ref_str_parse (t : string) : option num := option_map fnum_value (rust_float_syntax t).

(* ------------------------------------------------------------------ 2b. `{:.0}` on integral values *)
(* |x| as an exact integer, for integral finite x *)
Definition int_abs (x : num) : Z :=
  match x with
  | S754_finite _ m e => let '(q, _, _) := split_int m e in q
  | _ => 0
  end.
Definition sign_str (s : bool) : string := if s then "-"%string else EmptyString.
(* Rust format!("{:.0}", x) for integral finite x: sign (also for -0) and the exact integer *)
Definition ref_prec0 (x : num) : string := (sign_str (nsign x) ++ Z_to_dec (int_abs x))%string.

(* ------------------------------------------------------------------ 2c. shortest round-trip digits *)
(* core::num::flt2dec::decode + strategy::dragon::format_shortest, over Z.
   Result: digit list d1 d2 .. dn (d1 may not be 0) and k with value = 0.d1..dn * 10^k. *)
Definition Zbitlen (z : Z) : Z := match z with Z0 => 0 | _ => Z.log2 z + 1 end.
(* estimate_scaling_factor(mant, exp): ((nbits + exp) * 1292913986) >> 32 *)
Definition estimate_scaling_factor (mant exp : Z) : Z :=
  let nbits := Zbitlen (mant - 1) in
  Z.shiftr ((nbits + exp) * 1292913986) 32.

(* decode: (mant, minus, plus, exp, inclusive) for a finite non-zero |x| = m * 2^e (canonical) *)
Definition fdecode (m : positive) (e : Z) : Z * Z * Z * Z * bool :=
  let even := Z.even (Zpos m) in
  if Zpos m =? 2 ^ 52 then (Zpos m * 4, 1, 2, e - 2, even)       (* Normal, mant == minnorm.0 *)
  else if Zpos m <? 2 ^ 52 then (Zpos m * 2, 1, 1, e - 1, true)    (* Subnormal: integer_decode's
                                                                      mantissa is frac << 1, so
                                                                      `even` is always true *)
  else (Zpos m * 2, 1, 1, e - 1, even).

Definition cmp_lt_rounding (inclusive : bool) (a b : Z) : bool :=   (* a.cmp(b) < rounding *)
  if inclusive then a <=? b else a <? b.

Fixpoint round_up_digits (ds : list Z) : list Z * bool :=   (* add one ulp to the last digit *)
  match ds with
  | [] => ([], true)
  | d :: r =>
      let '(r', carry) := round_up_digits r in
      if carry then (if d =? 9 then (0 :: r', true) else (d + 1 :: r', false)) else (d :: r', false)
  end.

(* one digit: d = mant / scale < 10 and mant mod scale, by repeated subtraction (as Rust's bignum
   div_rem_upto_16 does; also much cheaper than Z.div on 1000-bit numbers under vm_compute) *)
Fixpoint div_small (fuel : nat) (mant scale d : Z) : Z * Z :=
  match fuel with
  | O => (d, mant)
  | S f => if mant <? scale then (d, mant) else div_small f (mant - scale) scale (d + 1)
  end.

Fixpoint dragon_loop (fuel : nat) (inclusive : bool) (mant minus plus scale : Z) (acc : list Z)
  : list Z * bool * bool * Z :=   (* digits (reversed), down, up, final mant *)
  match fuel with
  | O => (acc, true, false, mant)
  | S f =>
      let '(d, mant) := div_small 16 mant scale 0 in
      let acc := d :: acc in
      let down := cmp_lt_rounding inclusive mant minus in
      let up := cmp_lt_rounding inclusive scale (mant + plus) in
      if down || up then (acc, down, up, mant)
      else dragon_loop f inclusive (mant * 10) (minus * 10) (plus * 10) scale acc
  end.

(* tie_even = false: Rust flt2dec (a tie between the two shortest candidates rounds up);
   tie_even = true: ryu (a tie rounds to the even last digit) *)
Definition shortest_digits_gen (tie_even : bool) (m : positive) (e : Z) : list Z * Z :=
  let '(mant0, minus0, plus0, exp, inclusive) := fdecode m e in
  let k := estimate_scaling_factor (mant0 + plus0) exp in
  let p2 := 2 ^ (Z.abs exp) in
  let '(mant, minus, plus, scale) :=
    if exp <? 0 then (mant0, minus0, plus0, p2) else (mant0 * p2, minus0 * p2, plus0 * p2, 1) in
  let p10 := 10 ^ (Z.abs k) in
  let '(mant, minus, plus, scale) :=
    if 0 <=? k then (mant, minus, plus, scale * p10) else (mant * p10, minus * p10, plus * p10, scale) in
  let '(k, mant, minus, plus) :=
    if cmp_lt_rounding inclusive scale (mant + plus) then (k + 1, mant, minus, plus)
    else (k, mant * 10, minus * 10, plus * 10) in
  let '(racc, down, up, mantf) := dragon_loop 20 inclusive mant minus plus scale [] in
  let ds := rev racc in
  let last_odd := match racc with d :: _ => Z.odd d | [] => false end in
  let tie_up := if tie_even then (scale <? 2 * mantf) || ((scale =? 2 * mantf) && last_odd)
                else scale <=? 2 * mantf in
  if up && (negb down || tie_up) then
    let '(ds', carry) := round_up_digits ds in
    if carry then (1 :: ds', k + 1) else (ds', k)     (* round_up returns the extra digit '0' *)
  else (ds, k).

Definition shortest_digits := shortest_digits_gen false.

Fixpoint digits_str (ds : list Z) : string :=
  match ds with [] => EmptyString | d :: r => String (dchar d) (digits_str r) end.

(* flt2dec::digits_to_dec_str with frac_digits = 0 *)
Definition digits_to_dec_str (ds : list Z) (k : Z) : string :=
  let n := Z.of_nat (List.length ds) in
  let s := digits_str ds in
  if k <=? 0 then ("0." ++ zeros (Z.to_nat (- k)) ++ s)%string
  else if k <? n then (take (Z.to_nat k) s ++ "." ++ drop (Z.to_nat k) s)%string
  else (s ++ zeros (Z.to_nat (k - n)))%string.

(* Rust `impl Display for f64` (no precision): never exponent notation, "-0" for -0.0 *)
Definition display_of_digits (x : num) (dk : list Z * Z) : string :=
  match x with
  | S754_nan => "NaN"
  | S754_infinity s => sign_str s ++ "inf"
  | S754_zero s => sign_str s ++ "0"
  | S754_finite s m e => sign_str s ++ digits_to_dec_str (fst dk) (snd dk)
  end%string.
Definition digits_of (x : num) : list Z * Z :=
  match x with S754_finite _ m e => shortest_digits m e | _ => ([], 0) end.
Definition ref_display (x : num) : string := display_of_digits x (digits_of x).

(* ryu::pretty::format64 as used by serde_json for finite f64 *)
Definition exp_str (z : Z) : string := let neg := z <? 0 in (sign_str neg ++ Z_to_dec (Z.abs z))%string.
Definition ryu_body (ds : list Z) (kk : Z) : string :=
  (* ds: digits, value = 0.ds * 10^kk, i.e. ryu's k = kk - length, ryu's kk = kk *)
  let n := Z.of_nat (List.length ds) in
  let s := digits_str ds in
  let k := kk - n in
  if (0 <=? k) && (kk <=? 16) then (s ++ zeros (Z.to_nat k) ++ ".0")%string
  else if (0 <? kk) && (kk <=? 16) then (take (Z.to_nat kk) s ++ "." ++ drop (Z.to_nat kk) s)%string
  else if (-5 <? kk) && (kk <=? 0) then ("0." ++ zeros (Z.to_nat (- kk)) ++ s)%string
  else if n =? 1 then (s ++ "e" ++ exp_str (kk - 1))%string
  else (take 1 s ++ "." ++ drop 1 s ++ "e" ++ exp_str (kk - 1))%string.
Definition ryu_of_digits (x : num) (dk : list Z * Z) : string :=
  match x with
  | S754_zero s => sign_str s ++ "0.0"
  | S754_finite s m e => sign_str s ++ ryu_body (fst dk) (snd dk)
  | S754_infinity s => sign_str s ++ "inf"
  | S754_nan => "NaN"
  end%string.
Definition ref_ryu (x : num) : string :=
  ryu_of_digits x (match x with S754_finite _ m e => shortest_digits_gen true m e | _ => ([], 0) end).

(* ------------------------------------------------------------------ 3a. grammar.pest: number *)
(* A tiny PEG combinator language (atomic context: `number` is an `@` rule, so there is no
   implicit whitespace); a parser maps the input to the remaining input, or fails. *)
Definition parser := string -> option string.
Definition p_class (f : ascii -> bool) : parser :=
  fun s => match s with String c r => if f c then Some r else None | EmptyString => None end.
Definition p_lit (l : string) : parser := strip_prefix l.
Definition p_ilit (l : string) : parser :=            (* ^"..." : ASCII case-insensitive *)
  fun s => if String.eqb (lower_s (take (String.length l) s)) (lower_s l)
           then Some (drop (String.length l) s) else None.
Definition p_seq (p q : parser) : parser := fun s => match p s with Some r => q r | None => None end.
Definition p_alt (p q : parser) : parser := fun s => match p s with Some r => Some r | None => q s end.
Definition p_opt (p : parser) : parser := fun s => match p s with Some r => Some r | None => Some s end.
Definition p_not (p : parser) : parser := fun s => match p s with Some _ => None | None => Some s end.
Fixpoint p_star_f (fuel : nat) (p : parser) (s : string) : option string :=
  match fuel with
  | O => Some s
  | S f => match p s with None => Some s | Some r => p_star_f f p r end
  end.
Definition p_star (p : parser) : parser := fun s => p_star_f (S (String.length s)) p s.
Definition p_plus (p : parser) : parser := p_seq p (p_star p).
Infix "&>" := p_seq (at level 41, right associativity).
Infix "</>" := p_alt (at level 42, right associativity).

Definition p_range (a b : ascii) : parser :=            (* 'a'..'f' *)
  p_class (fun c => (acode a <=? acode c) && (acode c <=? acode b)).
Definition is_bit (c : ascii) : bool := (acode c =? 48) || (acode c =? 49).
Definition is_hex (c : ascii) : bool :=
  is_digit c || ((97 <=? acode c) && (acode c <=? 102)) || ((65 <=? acode c) && (acode c <=? 70)).
Definition ASCII_DIGIT := p_class is_digit.
(* The seven rules below mirror grammar.pest token for token; coq/gen/NumGrammar.v is regenerated
   from grammar.pest on every run and Properties/C16.v checks that it is this very term. *)
(* integer = _{ ("+" | "-")? ~ ASCII_DIGIT+ } *)
Definition g_integer := p_opt (p_lit "+" </> p_lit "-") &> p_plus ASCII_DIGIT.
Definition g_sign := p_opt (p_lit "+" </> p_lit "-").
(* binary_digits = _{ ("0" | "1")+ ~ ("_"+ ~ ("0" | "1")+)* } *)
Definition g_binary_digits :=
  p_plus (p_lit "0" </> p_lit "1") &> p_star (p_plus (p_lit "_") &> p_plus (p_lit "0" </> p_lit "1")).
(* hex_digits = _{ (ASCII_DIGIT | 'a'..'f' | 'A'..'F')+ ~ ("_"+ ~ (ASCII_DIGIT | 'a'..'f' | 'A'..'F')+)* } *)
Definition g_hex_digits :=
  p_plus (ASCII_DIGIT </> p_range "a" "f" </> p_range "A" "F")
  &> p_star (p_plus (p_lit "_") &> p_plus (ASCII_DIGIT </> p_range "a" "f" </> p_range "A" "F")).
(* binary_number = _{ ("+" | "-")? ~ "0b" ~ binary_digits } *)
Definition g_binary_number := p_opt (p_lit "+" </> p_lit "-") &> p_lit "0b" &> g_binary_digits.
(* hex_number = _{ ("+" | "-")? ~ "0x" ~ hex_digits } *)
Definition g_hex_number := p_opt (p_lit "+" </> p_lit "-") &> p_lit "0x" &> g_hex_digits.
(* decimal_number = _{ (integer ~ ("_"+ ~ integer)* ~ ("." ~ ASCII_DIGIT+)?
                        | !integer ~ "." ~ ASCII_DIGIT+) ~ (^"e" ~ integer)? } *)
Definition g_decimal_number :=
  ((g_integer &> p_star (p_plus (p_lit "_") &> g_integer) &> p_opt (p_lit "." &> p_plus ASCII_DIGIT))
   </> (p_not g_integer &> p_lit "." &> p_plus ASCII_DIGIT))
  &> p_opt (p_ilit "e" &> g_integer).
(* number = @{ binary_number | hex_number | decimal_number } *)
Definition g_number := g_binary_number </> g_hex_number </> g_decimal_number.

(* the token matched by a parser at the start of s, and the rest *)
Definition lex (p : parser) (s : string) : option (string * string) :=
  match p s with
  | Some r => Some (take (String.length s - String.length r) s, r)
  | None => None
  end.

(* ------------------------------------------------------------------ 3b. literal conversion *)
(* i64::from_str_radix(src, radix): optional sign, at least one digit, every char a digit of
   the radix, result within i64 — otherwise Err (Empty / InvalidDigit / PosOverflow / NegOverflow) *)
Definition radix_digit (radix : Z) (c : ascii) : option Z :=
  let n := acode c in
  let v := if is_digit c then n - 48
           else if (97 <=? n) && (n <=? 122) then n - 87
           else if (65 <=? n) && (n <=? 90) then n - 55 else 99 in
  if v <? radix then Some v else None.
Fixpoint radix_val (radix : Z) (s : string) (acc : Z) : option Z :=
  match s with
  | EmptyString => Some acc
  | String c r => match radix_digit radix c with
                  | Some v => radix_val radix r (acc * radix + v)
                  | None => None
                  end
  end.
Definition i64_from_str_radix (src : string) (radix : Z) : option Z :=
  let '(neg, ds) := match src with
                    | String "-" r => (true, r)
                    | String "+" r => (false, r)
                    | _ => (false, src)
                    end in
  (* Rust: a lone "+" or "-" is InvalidDigit, the empty string is Empty *)
  if is_empty ds then None
  else match radix_val radix ds 0 with
       | None => None
       | Some v => let z := if neg then - v else v in
                   if (I64_MIN <=? z) && (z <=? I64_MAX) then Some z else None
       end.

Definition n_one : num := num_of_Z 1.
Definition n_mone : num := num_of_Z (-1).

Section Literal.
  Variable str_parse : string -> option num.      (* Rust str::parse::<f64> *)

  (* expressions.rs, pairs_to_expr_inner, Rule::number: token text -> f64 or conversion error *)
  Definition radix_literal (num_str : string) (mark : string) (radix : Z) : option num :=
    let '(sign, digits) :=
      match strip_prefix ("-" ++ mark) num_str with
      | Some d => (n_mone, d)
      | None => match strip_prefix ("+" ++ mark) num_str with
                | Some d => (n_one, d)
                | None => (n_one, drop 2 num_str)
                end
      end in
    let cleaned := remove_char "_" digits in
    match i64_from_str_radix cleaned radix with
    | None => None
    | Some parsed => Some (nmul sign (num_of_Z parsed))      (* sign * parsed as f64 *)
    end.

  Definition literal_value (num_str : string) : option num :=
    if starts_with "0b" num_str || starts_with "-0b" num_str || starts_with "+0b" num_str then
      radix_literal num_str "0b" 2
    else if starts_with "0x" num_str || starts_with "-0x" num_str || starts_with "+0x" num_str then
      radix_literal num_str "0x" 16
    else str_parse (remove_char "_" num_str).

  (* ---------------------------------------------------------------- 3c. parser, numeric texts *)
  (* The slice of `expression = prefix_usage* ~ term ...` the number paths use: any number of
     prefix negations, then a `number` token, then the end of the text.  Everything else is
     PUnmodelled (counted by the correspondence). *)
  Inductive presult := PReject | PLitErr | PUnmodelled | PExpr (e : expr).

  Fixpoint count_neg (s : string) : nat * string :=
    match s with
    | String "-" r => let '(n, t) := count_neg r in (S n, t)
    | _ => (O, s)
    end.
  Fixpoint negs (n : nat) (e : expr) : expr :=
    match n with O => e | S k => EUn Negate (negs k e) end.

  Definition ident_char (c : ascii) : bool := is_alpha c || is_digit c || Ascii.eqb c "_".
  Definition parse_numexpr_flat (src : string) : presult :=
    let '(k, t) := count_neg src in
    match t with
    | EmptyString => match k with O => PUnmodelled | _ => PReject end
    | String c _ =>
        if is_digit c || Ascii.eqb c "+" || Ascii.eqb c "." then
          (* no alternative of `term` before `number` starts with a digit, '+' or '.' *)
          match lex g_number t with
          | None => PReject
          | Some (tok, EmptyString) =>
              match literal_value tok with
              | Some v => PExpr (negs k (ENum v))
              | None => PLitErr
              end
          | Some (_, String c2 r2) =>
              (* a letter, digit or '_' directly after a number token starts no postfix or infix
                 operator; neither does ".<digit>" or a final "." *)
              if ident_char c2 then PReject
              else if Ascii.eqb c2 "." &&
                      match r2 with EmptyString => true | String c3 _ => is_digit c3 end then PReject
              else PUnmodelled
          end
        else PUnmodelled
    end.

  (* nested_expression = _{ "(" ~ (WHITESPACE | NEWLINE)* ~ expression ~ (WHITESPACE | NEWLINE)* ~ ")" } is a
     silent rule: `-*( <numeric expression> )` parses to the inner tree under the outer negations.
     One level, no blanks inside — what serializable_value_to_source emits for negative numbers. *)
  Fixpoint split_last (s : string) : option (string * ascii) :=
    match s with
    | EmptyString => None
    | String c EmptyString => Some (EmptyString, c)
    | String c r => match split_last r with Some (i, l) => Some (String c i, l) | None => None end
    end.
  Definition parse_numexpr (src : string) : presult :=
    let '(k, t) := count_neg src in
    match t with
    | String "(" r =>
        match split_last r with
        | Some (inner, ")"%char) =>
            match parse_numexpr_flat inner with
            | PExpr e => PExpr (negs k e)
            | other => other
            end
        | _ => PUnmodelled
        end
    | _ => parse_numexpr_flat src
    end.

  (* evaluate_ast on that slice: Number, UnaryOp Negate *)
  Fixpoint eval_numexpr (e : expr) : outcome num :=
    match e with
    | ENum x => Ok x
    | EUn Negate e' => omap nneg (eval_numexpr e')
    | _ => Unmodelled
    end.

  Definition read_source (src : string) : outcome num :=
    match parse_numexpr src with
    | PExpr e => eval_numexpr e
    | PUnmodelled => Unmodelled
    | _ => Err
    end.

  (* functions.rs ToNumber on a string argument *)
  Definition to_number_str (s : string) : outcome num := of_option (str_parse s).
End Literal.

(* ------------------------------------------------------------------ 3b'. literal conversion, repaired
   fixes/C16-radix-literal-range.diff (F25): the 0x / 0b arms call

     fn parse_radix_digits(digits: &str, radix: u32) -> Result<f64, &'static str> {
         if digits.is_empty() { return Err("cannot parse integer from empty string"); }
         let bits = radix.trailing_zeros();
         let mut acc: u128 = 0;  let mut scale: f64 = 1.0;  let mut sticky = false;
         for c in digits.chars() {
             let d = c.to_digit(radix).ok_or("invalid digit found in string")?;
             if acc >> (128 - bits) == 0 { acc = (acc << bits) | u128::from(d); }
             else { sticky |= d != 0; scale *= f64::from(radix); }
         }
         Ok((acc | u128::from(sticky)) as f64 * scale)
     }

   instead of i64::from_str_radix, and then `sign * parsed`.  Transcribed step by step; which of the
   two models the correspondence runs (radixfix) is decided on every run by probing the built harness. *)
Fixpoint pos_trailing_zeros (p : positive) : Z :=
  match p with xO q => 1 + pos_trailing_zeros q | _ => 0 end.
Definition u32_trailing_zeros (z : Z) : Z := match z with Zpos p => pos_trailing_zeros p | _ => 32 end.
Definition wrap_u128 (z : Z) : Z := z mod 2 ^ 128.             (* u128 `<<` discards the bits shifted out *)
Definition Z_of_bool (b : bool) : Z := if b then 1 else 0.      (* u128::from(bool) *)

(* the loop: Some (acc, scale, sticky) after the last digit, None at the first invalid digit *)
Fixpoint radix_fold (radix bits : Z) (s : string) (acc : Z) (scale : num) (sticky : bool)
  : option (Z * num * bool) :=
  match s with
  | EmptyString => Some (acc, scale, sticky)
  | String c r =>
      match radix_digit radix c with                           (* c.to_digit(radix) *)
      | None => None
      | Some d =>
          if Z.shiftr acc (128 - bits) =? 0
          then radix_fold radix bits r (Z.lor (wrap_u128 (Z.shiftl acc bits)) d) scale sticky
          else radix_fold radix bits r acc (nmul scale (num_of_Z radix)) (sticky || negb (d =? 0))
      end
  end.
Definition parse_radix_digits (digits : string) (radix : Z) : option num :=
  if is_empty digits then None
  else match radix_fold radix (u32_trailing_zeros radix) digits 0 n_one false with
       | None => None
       | Some (acc, scale, sticky) =>
           Some (nmul (num_of_Z (Z.lor acc (Z_of_bool sticky))) scale)   (* (acc | sticky) as f64 * scale *)
       end.

Definition radix_literal_fixed (num_str : string) (mark : string) (radix : Z) : option num :=
  let '(sign, digits) :=
    match strip_prefix ("-" ++ mark) num_str with
    | Some d => (n_mone, d)
    | None => match strip_prefix ("+" ++ mark) num_str with
              | Some d => (n_one, d)
              | None => (n_one, drop 2 num_str)
              end
    end in
  let cleaned := remove_char "_" digits in
  match parse_radix_digits cleaned radix with
  | None => None
  | Some parsed => Some (nmul sign parsed)                     (* sign * parsed *)
  end.

Section LiteralRF.
  Variable radixfix : bool.                        (* true: the tree carries the F25 repair *)
  Variable str_parse : string -> option num.

  Definition literal_value_rf (num_str : string) : option num :=
    if radixfix then
      if starts_with "0b" num_str || starts_with "-0b" num_str || starts_with "+0b" num_str then
        radix_literal_fixed num_str "0b" 2
      else if starts_with "0x" num_str || starts_with "-0x" num_str || starts_with "+0x" num_str then
        radix_literal_fixed num_str "0x" 16
      else str_parse (remove_char "_" num_str)
    else literal_value str_parse num_str.

  (* parse_numexpr_flat / parse_numexpr / read_source with the literal conversion of the tree at hand
     (the grammar and the prefix-negation slice are untouched by the repair) *)
  Definition parse_numexpr_flat_rf (src : string) : presult :=
    let '(k, t) := count_neg src in
    match t with
    | EmptyString => match k with O => PUnmodelled | _ => PReject end
    | String c _ =>
        if is_digit c || Ascii.eqb c "+" || Ascii.eqb c "." then
          match lex g_number t with
          | None => PReject
          | Some (tok, EmptyString) =>
              match literal_value_rf tok with
              | Some v => PExpr (negs k (ENum v))
              | None => PLitErr
              end
          | Some (_, String c2 r2) =>
              if ident_char c2 then PReject
              else if Ascii.eqb c2 "." &&
                      match r2 with EmptyString => true | String c3 _ => is_digit c3 end then PReject
              else PUnmodelled
          end
        else PUnmodelled
    end.
  Definition parse_numexpr_rf (src : string) : presult :=
    let '(k, t) := count_neg src in
    match t with
    | String "(" r =>
        match split_last r with
        | Some (inner, ")"%char) =>
            match parse_numexpr_flat_rf inner with
            | PExpr e => PExpr (negs k e)
            | other => other
            end
        | _ => PUnmodelled
        end
    | _ => parse_numexpr_flat_rf src
    end.
  Definition read_source_rf (src : string) : outcome num :=
    match parse_numexpr_rf src with
    | PExpr e => eval_numexpr e
    | PUnmodelled => Unmodelled
    | _ => Err
    end.
End LiteralRF.

(* ------------------------------------------------------------------ 3d. printing *)
Definition c1e15 : num := num_of_Z (10 ^ 15).
Section Printing.
  Variable fmt_prec0 : num -> string.     (* format!("{:.0}", n) *)
  Variable display : num -> string.       (* n.to_string() *)

  (* ast_to_source.rs (three copies: expr_to_source, expr_to_source_with_scope,
     serializable_value_to_source):
       if n.fract() == 0.0 && n.abs() < 1e15 { format!("{:.0}", n) } else { n.to_string() } *)
  Definition print_num (x : num) : string :=
    if nfract_is_zero x && nltb (nabs x) c1e15 then fmt_prec0 x else display x.

  (* ast_to_source.rs serializable_value_to_source (captured values inlined into an emitted function,
     after fix b235c37): NaN is (0/0); a value with the sign bit set is parenthesised, so that a
     following postfix or power operator cannot bind to the digits first *)
  Definition emit_num (x : num) : string :=
    let text := print_num x in
    if is_nan x then "(0/0)"%string
    else if nsign x then ("(" ++ text ++ ")")%string
    else text.

  (* formatter.rs: format_expr on a Number node falls through to expr_to_source, any width *)
  Definition format_num (x : num) (width : option Z) : string := print_num x.

  (* functions.rs ToString on a number: stringify_internal -> n.to_string() *)
  Definition to_string_num (x : num) : string := display x.
End Printing.

(* ------------------------------------------------------------------ 3e. JSON number mapping *)
Section JsonOut.
  Variable json_print : num -> string.   (* serde_json's text for a finite f64 (ryu) *)
  (* values.rs to_json: Number::from_f64(n).unwrap_or(Number::from(0)), then serde_json::to_string *)
  Definition json_out (x : num) : string := if is_finite x then json_print x else "0"%string.
End JsonOut.

(* serde_json 1.0.145 src/de.rs, Deserializer::parse_integer / parse_number / parse_decimal /
   parse_exponent / f64_from_parts / parse_long_integer / parse_decimal_overflow /
   parse_exponent_overflow, on the complete text of one JSON number (what follows the number
   in a document — ',', '}', ']', blank, end — is outside this model).  `exact` = built with
   the float_roundtrip feature (lexical: correctly rounded); otherwise the shipped fast path. *)
Definition U64_MAXZ := 2 ^ 64 - 1.
Definition I32_MAXZ := 2 ^ 31 - 1.
Definition I32_MINZ := - 2 ^ 31.
Definition sat_i32 (z : Z) : Z := clamp I32_MINZ I32_MAXZ z.
Definition ndiv_ (a b : num) := ndiv a b.
Definition pow10_f64 (k : Z) : num := rn_decimal false 1 k.       (* the literal 1e<k> *)

(* f64_from_parts without float_roundtrip *)
Fixpoint f64_from_parts_lossy (fuel : nat) (f : num) (exponent : Z) : outcome num :=
  if Z.abs exponent <=? 308 then
    if 0 <=? exponent then
      let f' := nmul f (pow10_f64 exponent) in
      if is_inf f' then Err else Ok f'
    else Ok (ndiv f (pow10_f64 (- exponent)))
  else if neqb f nzero then Ok f
  else if 0 <=? exponent then Err
  else match fuel with
       | O => Unmodelled
       | S k => f64_from_parts_lossy k (ndiv f (pow10_f64 308)) (exponent + 308)
       end.

Section SerdeNumber.
  Variable exact : bool.

  (* value of the significand digits seen so far: `sig` is the u64 accumulator of the shipped
     parser; `all` is the exact integer of every digit read (used by the exact parser) *)
  Record acc := { a_sig : Z; a_all : Z; a_ovf : bool }.

  Definition finish (positive : bool) (a : acc) (exponent exponent_all : Z) : outcome num :=
    if exact then
      let f := rn_decimal false (a_all a) exponent_all in
      if is_inf f then Err else Ok (with_sign (negb positive) f)
    else
      match f64_from_parts_lossy 8 (num_of_Z (a_sig a)) (sat_i32 exponent) with
      | Ok f => Ok (with_sign (negb positive) f)
      | o => o
      end.

  (* parse_exponent: text after the 'e' *)
  Definition parse_exponent (positive : bool) (a : acc) (starting_exp starting_all : Z) (r : string)
    : outcome num :=
    let '(positive_exp, r1) :=
      match r with
      | String "+" r' => (true, r')
      | String "-" r' => (false, r')
      | _ => (true, r)
      end in
    let '(ed, r2) := span_digits r1 in
    if is_empty ed || negb (is_empty r2) then Err
    else
      let ex := digits_val ed 0 in
      if I32_MAXZ <? ex then
        (* parse_exponent_overflow *)
        if negb (a_all a =? 0) && positive_exp then Err else Ok (S754_zero (negb positive))
      else
        finish positive a (if positive_exp then starting_exp + ex else starting_exp - ex)
                          (if positive_exp then starting_all + ex else starting_all - ex).

  (* fraction digits; `e_sig` / `e_all` are the decimal exponents that go with a_sig / a_all *)
  Fixpoint frac_loop (ds : string) (a : acc) (e_sig e_all : Z) : acc * Z * Z :=
    match ds with
    | EmptyString => (a, e_sig, e_all)
    | String c r =>
        let d := digit_val c in
        let all' := a_all a * 10 + d in
        if a_ovf a then frac_loop r {| a_sig := a_sig a; a_all := all'; a_ovf := true |} e_sig (e_all - 1)
        else if U64_MAXZ <? a_sig a * 10 + d then
          (* parse_decimal_overflow: every further fraction digit is ignored *)
          frac_loop r {| a_sig := a_sig a; a_all := all'; a_ovf := true |} e_sig (e_all - 1)
        else frac_loop r {| a_sig := a_sig a * 10 + d; a_all := all'; a_ovf := false |}
                       (e_sig - 1) (e_all - 1)
    end.

  (* integer digits after the first; on u64 overflow parse_long_integer only counts digits *)
  Fixpoint int_loop (ds : string) (a : acc) (e_sig : Z) : acc * Z :=
    match ds with
    | EmptyString => (a, e_sig)
    | String c r =>
        let d := digit_val c in
        let all' := a_all a * 10 + d in
        if a_ovf a || (U64_MAXZ <? a_sig a * 10 + d)
        then int_loop r {| a_sig := a_sig a; a_all := all'; a_ovf := true |} (e_sig + 1)
        else int_loop r {| a_sig := a_sig a * 10 + d; a_all := all'; a_ovf := false |} e_sig
    end.

  Definition serde_number (t : string) : outcome num :=
    let '(positive, r) := match t with String "-" r => (false, r) | _ => (true, t) end in
    let '(ip, r1) := span_digits r in
    match ip with
    | EmptyString => Err
    | String c0 ip' =>
        (* "There can be only one leading '0'." *)
        if Ascii.eqb c0 "0" && negb (is_empty ip') then Err
        else
          let '(a, e_sig) := int_loop ip {| a_sig := 0; a_all := 0; a_ovf := false |} 0 in
          match r1 with
          | EmptyString =>
              if a_ovf a then finish positive a e_sig 0
              else if positive then Ok (num_of_Z (a_sig a))               (* U64 -> as f64 *)
              else if a_sig a =? 0 then Ok (S754_zero true)                (* F64(-0.0) *)
              else Ok (num_of_Z (- a_sig a))                               (* I64 or -(u64 as f64) *)
          | String "." r2 =>
              let '(fp, r3) := span_digits r2 in
              if is_empty fp then Err
              else
                (* after an integer overflow the shipped parser re-enters parse_decimal with the
                   truncated significand and keeps accumulating while it fits *)
                let a0 := {| a_sig := a_sig a; a_all := a_all a; a_ovf := false |} in
                let '(a', e_sig', e_all') := frac_loop fp a0 e_sig 0 in
                match r3 with
                | EmptyString => finish positive a' e_sig' e_all'
                | String ce r4 =>
                    if Ascii.eqb (lower_c ce) "e" then parse_exponent positive a' e_sig' e_all' r4
                    else Err
                end
          | String ce r4 =>
              if Ascii.eqb (lower_c ce) "e" then parse_exponent positive a e_sig 0 r4 else Err
          end
    end.
End SerdeNumber.

(* values.rs from_json: n.as_f64().unwrap_or(0.0) — as_f64 is total without arbitrary_precision *)
Definition json_in (exact : bool) (t : string) : outcome num := serde_number exact t.

(* ------------------------------------------------------------------ canonical printers *)
Definition show_onum (o : outcome num) : string :=
  match o with
  | Ok x => show_num x
  | Err => "ERR"
  | ErrDepth => "ERRDEPTH"
  | Panic => "PANIC"
  | Unmodelled => "UNMODELLED"
  end%string.
Definition show_optnum (o : option num) : string :=
  match o with Some x => show_num x | None => "ERR"%string end.
Definition show_presult (str_parse : string -> option num) (src : string) : string :=
  match parse_numexpr str_parse src with
  | PReject => "REJECT"
  | PLitErr => "LITERR"
  | PUnmodelled => "UNMODELLED"
  | PExpr e => show_onum (eval_numexpr e)
  end%string.
Definition show_presult_rf (radixfix : bool) (str_parse : string -> option num) (src : string) : string :=
  match parse_numexpr_rf radixfix str_parse src with
  | PReject => "REJECT"
  | PLitErr => "LITERR"
  | PUnmodelled => "UNMODELLED"
  | PExpr e => show_onum (eval_numexpr e)
  end%string.
Definition num_same (a b : num) : bool := bits_of_num a =? bits_of_num b.
Definition show_b (b : bool) : string := if b then "T"%string else "F"%string.

(* ------------------------------------------------------------------ correspondence entry points *)
(* One NUMTEXT case: the double x (bit pattern xb) with the three library texts the Rust build
   produced for it (Display D, {:.0} P, serde_json J) used as one-entry oracle tables, and the
   texts the repo's own code produced (expr_to_source S, format_expr F, emitted function body E).
   Texts are compared here (T/F) so that the output stays small; read-backs are printed as bits. *)
Definition c16_case (xb : Z) (D P J S F E : string) : string :=
  let x := num_of_bits xb in
  let fp := fun _ : num => P in
  let dp := fun _ : num => D in
  let mS := print_num fp dp x in
  let integral := nfract_is_zero x && nltb (nabs x) c1e15 in
  let jt := json_out (fun _ : num => J) x in
  let dk := digits_of x in
  let dkr := match x with S754_finite _ m e => shortest_digits_gen true m e | _ => ([], 0) end in
  ("S=" ++ show_b (String.eqb mS S)
   ++ " F=" ++ show_b (String.eqb (format_num fp dp x None) F)
   ++ " E=" ++ show_b (String.eqb (emit_num fp dp x) E)
   ++ " JO=" ++ show_b (String.eqb jt J)
   ++ " RD=" ++ show_b (String.eqb (display_of_digits x dk) D)
   ++ " RZ=" ++ (if integral then show_b (String.eqb (ref_prec0 x) P) else "-")
   ++ " RJ=" ++ show_b (String.eqb (json_out (fun y => ryu_of_digits y dkr) x) J)
   ++ " SR=" ++ show_onum (read_source ref_str_parse mS)
   ++ " ER=" ++ show_onum (read_source ref_str_parse (emit_num fp dp x))
   ++ " DN=" ++ show_onum (to_number_str ref_str_parse (to_string_num dp x))
   ++ " JL=" ++ show_onum (json_in false jt)
   ++ " JE=" ++ show_onum (json_in true jt))%string.
