(* Env.v — environments (blots-core/src/environment.rs), the lambda-name store, free
   variables (collect_free_variables) and small helpers shared by the evaluator model.
   Definitions only.

   Environment = chain of frames, innermost first.  A frame is Owned (a RefCell<HashMap>,
   the only kind that is ever written: Environment::insert) or Shared (the Rc<HashMap> of a
   lambda's captured scope: inserting into it panics).  HashMaps are modelled as association
   lists with "newest binding first" (insert = cons, lookup = first match), which is
   observationally a map because frames are only ever looked up by key on modelled paths.

   Values are immutable trees EXCEPT a lambda's display name, which Assignment overwrites in
   place in the heap cell shared by every alias of the lambda (expressions.rs:143-148,
   406-413) and which FunctionDef::call reads to bind the function to itself.  The store is
   exactly that: lam_id -> current name. *)
From Coq Require Import String Ascii List ZArith Bool.
Require Import Blots.Num Blots.gen.Builtins Blots.Ast Blots.Value Blots.Outcome Blots.Binop.
Import ListNotations.
Open Scope string_scope.
Open Scope list_scope.

Definition frame := list (string * value).
Inductive fkind := FOwned | FShared.
Definition frames := list (fkind * frame).
Definition store := list (option string).
Definition cfg := (store * frames)%type.

Fixpoint lookup_frame (f : frame) (x : string) : option value :=
  match f with
  | [] => None
  | (y, v) :: r => if String.eqb x y then Some v else lookup_frame r x
  end.
(* Environment::get *)
Fixpoint lookup (fr : frames) (x : string) : option value :=
  match fr with
  | [] => None
  | (_, f) :: r => match lookup_frame f x with Some v => Some v | None => lookup r x end
  end.
(* Environment::contains_key *)
Definition contains (fr : frames) (x : string) : bool :=
  match lookup fr x with Some _ => true | None => false end.
(* Environment::insert: None = the panic "cannot insert into shared environment" *)
Definition insert_head (fr : frames) (x : string) (v : value) : option frames :=
  match fr with
  | (FOwned, f) :: r => Some ((FOwned, (x, v) :: f) :: r)
  | _ => None
  end.

(* ---- the lambda-name store ---- *)
Definition lam_name (st : store) (id : lam_id) : option string :=
  match nth_error st id with Some n => n | None => None end.
Fixpoint set_nth {A} (l : list A) (n : nat) (a : A) : list A :=
  match l, n with
  | [], _ => []
  | _ :: r, O => a :: r
  | x :: r, S n' => x :: set_nth r n' a
  end.
(* `if lambda_def.name.is_none() { lambda_def.name = Some(ident) }` when the assigned value is
   a lambda: a function keeps the first name it was bound to (repo commit 86bf597; before it
   the name was overwritten unconditionally, see known/C03.json F6) *)
Definition name_if_lambda (st : store) (v : value) (x : string) : store :=
  match v with
  | VLam id _ _ _ => match lam_name st id with None => set_nth st id (Some x) | Some _ => st end
  | _ => st
  end.
(* ... and only the assignment whose right-hand side CREATED the lambda names it (repo fix of F52,
   known/C02.json): `if let Value::Lambda(p) = val && p.index() >= cells_before`, cells_before being the heap
   length taken before the value expression is evaluated.  Naming a function that existed before would change
   what its other holders observe (the self reference shadows a name the body resolves dynamically). *)
Definition name_if_created (n0 : nat) (st : store) (v : value) (x : string) : store :=
  match v with
  | VLam id _ _ _ => if Nat.leb n0 id then name_if_lambda st v x else st
  | _ => st
  end.
Definition fresh_lambda (st : store) (args : list lamarg) (body : expr) (scope : frame)
  : value * store :=
  (VLam (Datatypes.length st) args body scope, (st ++ [None])%list).

(* heap cell 0: the `constants` record (heap.rs CONSTANTS): pi, e, max_value, min_value *)
Definition constants_record : list (string * value) :=
  [("pi", VNum (nb 0x400921fb54442d18)); ("e", VNum (nb 0x4005bf0a8b145769));
   ("max_value", VNum (nb 0x7fefffffffffffff)); ("min_value", VNum (nb 0x0010000000000000))].

(* ---- is_built_in_function = BuiltInFunction::from_ident(..).is_some() ---- *)
Definition is_builtin_name (s : string) : bool :=
  match builtin_of_name s with Some _ => true | None => false end.

(* ---- collect_free_variables (expressions.rs:671) ----
   `bound` is a HashSet: membership only.  Order of `vars` is the traversal order. *)
Definition mem (x : string) (l : list string) : bool := existsb (String.eqb x) l.

Fixpoint free_vars (e : expr) (bound : list string) {struct e} : list string :=
  match e with
  | EId x =>
      if mem x bound || String.eqb x "infinity" || String.eqb x "inf" || String.eqb x "constants"
      then [] else [x]
  (* `#field` reads the variable `inputs` (repo fix of F54, known/C05.json; before it an input
     reference was no use of any name, so `inputs` was not captured by `x => x * #rate`) *)
  | EInRef _ => if mem "inputs" bound then [] else ["inputs"]
  | ELam args body => free_vars body (map arg_name args ++ bound)
  | EBin _ l r => free_vars l bound ++ free_vars r bound
  | EUn _ a | EFact a | ESpread a => free_vars a bound
  | ECall f args =>
      free_vars f bound ++
      (fix go (l : list expr) : list string :=
         match l with [] => [] | a :: r => free_vars a bound ++ go r end) args
  | EAccess a i => free_vars a bound ++ free_vars i bound
  | EDot a _ => free_vars a bound
  | ECond c t f => free_vars c bound ++ free_vars t bound ++ free_vars f bound
  | EAssign _ v => free_vars v bound
  | EList items =>
      (fix go (l : list (commented expr)) : list string :=
         match l with [] => [] | Cm _ a _ :: r => free_vars a bound ++ go r end) items
  | ERec entries =>
      (fix go (l : list (commented rentry)) : list string :=
         match l with
         | [] => []
         | Cm _ (REntry k v) _ :: r =>
             (match k with
              | KDyn a => free_vars a bound ++ free_vars v bound
              | KSpread a => free_vars a bound
              | KStatic _ => free_vars v bound
              | KShort x => if mem x bound then [] else [x]   (* `{y}` reads y (repo fix F7) *)
              end) ++ go r
         end) entries
  | EDo stmts (Cm _ ret _) =>
      (* statements extend the block's bound set as they go *)
      (fix go (l : list (commented expr)) (bnd : list string) : list string :=
         match l with
         | [] => free_vars ret bnd
         | Cm _ s _ :: r =>
             match s with
             | EAssign x v => free_vars v bnd ++ go r (x :: bnd)
             | _ => free_vars s bnd ++ go r bnd
             end
         end) stmts bound
  | _ => []                      (* literals, BuiltIn, Output *)
  end.

(* the scope captured when a lambda is created (Expr::Lambda arm) *)
Fixpoint capture (fr : frames) (vars : list string) (acc : frame) : frame :=
  match vars with
  | [] => acc
  | x :: r =>
      match lookup fr x with
      | Some v => if is_builtin_name x then capture fr r acc else capture fr r ((x, v) :: acc)
      | None => capture fr r acc
      end
  end.

(* ---- arity ---- *)
(* lambda_arity (LambdaDef::get_arity) and arity_can_accept (FunctionArity::can_accept) are
   defined in Binop.v *)
Definition can_accept := arity_can_accept.
Definition fn_arity (f : value) : option arity :=
  match f with
  | VLam _ args _ _ => Some (lambda_arity args)
  | VBuiltin b => Some (builtin_arity b)
  | _ => None
  end.
Definition accepts (f : value) (n : nat) : bool :=
  match fn_arity f with Some a => can_accept a n | None => false end.

(* ---- decimal text of a natural number (usize::to_string) ---- *)
Definition digit_char (d : Z) : ascii := ascii_of_nat (Z.to_nat (48 + d)).
Fixpoint dec_digits (fuel : nat) (z : Z) (acc : string) : string :=
  match fuel with
  | O => acc
  | S f => let acc' := String (digit_char (z mod 10)) acc in
           if (z / 10 =? 0)%Z then acc' else dec_digits f (z / 10) acc'
  end.
Definition Z_to_dec (z : Z) : string := dec_digits 40 z "".
Definition nat_to_dec (n : nat) : string := Z_to_dec (Z.of_nat n).

(* ---- UTF-8: str::chars() on valid UTF-8, by leading byte ---- *)
Definition utf8_len (c : ascii) : nat :=
  let n := nat_of_ascii c in
  if Nat.ltb n 128 then 1 else if Nat.ltb n 224 then 2 else if Nat.ltb n 240 then 3 else 4.
Fixpoint take_str (n : nat) (s : string) : string * string :=
  match n, s with
  | S n', String c r => let '(a, b) := take_str n' r in (String c a, b)
  | _, _ => ("", s)
  end.
Fixpoint chars_fuel (fuel : nat) (s : string) : list string :=
  match fuel, s with
  | S f, String c _ =>
      let '(ch, rest) := take_str (utf8_len c) s in ch :: chars_fuel f rest
  | _, _ => []
  end.
Definition chars (s : string) : list string := chars_fuel (String.length s) s.
