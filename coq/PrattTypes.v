(* PrattTypes.v — types shared by the generated precedence table (gen/PrecTable.v) and the
   transcription of pest's Pratt parser (Pratt.v).  Definitions only.

   oprule   the pest grammar rules that blots-core/src/precedence.rs registers as operators
            (constructor = "R_" ++ rule name in grammar.pest).
   item     one pest `Pair` of the token stream handed to pairs_to_expr_inner
            (= the inner pairs of an `expression` / `lambda_expression` pair), with the inner
            pairs that the glue code looks at.  Everything map_primary / map_postfix read from a
            pair is a field of the item; spans are not modelled. *)
From Coq Require Import String List Bool.
Require Import Blots.Num Blots.gen.Builtins Blots.Ast.
Import ListNotations.

Inductive assoc := ALeft | ARight.
Inductive affix := Prefix | Postfix | Infix (a : assoc).

Inductive oprule :=
| R_add | R_subtract | R_multiply | R_divide | R_modulo | R_power
| R_equal | R_not_equal | R_less | R_less_eq | R_greater | R_greater_eq
| R_dot_equal | R_dot_not_equal | R_dot_less | R_dot_less_eq | R_dot_greater | R_dot_greater_eq
| R_and | R_natural_and | R_or | R_natural_or | R_via | R_into | R_where_ | R_coalesce
| R_negation | R_spread_operator | R_invert | R_natural_not
| R_factorial | R_access | R_dot_access | R_call_list.

Scheme Equality for oprule.     (* oprule_beq, oprule_eq_dec *)
Definition oprule_eqb := oprule_beq.

Definition all_oprules : list oprule :=
  [R_add; R_subtract; R_multiply; R_divide; R_modulo; R_power;
   R_equal; R_not_equal; R_less; R_less_eq; R_greater; R_greater_eq;
   R_dot_equal; R_dot_not_equal; R_dot_less; R_dot_less_eq; R_dot_greater; R_dot_greater_eq;
   R_and; R_natural_and; R_or; R_natural_or; R_via; R_into; R_where_; R_coalesce;
   R_negation; R_spread_operator; R_invert; R_natural_not;
   R_factorial; R_access; R_dot_access; R_call_list].

Definition all_binops : list binop :=
  [Add; Subtract; Multiply; Divide; Modulo; Power;
   Equal; NotEqual; Less; LessEq; Greater; GreaterEq;
   DotEqual; DotNotEqual; DotLess; DotLessEq; DotGreater; DotGreaterEq;
   And; NaturalAnd; Or; NaturalOr; Via; Into; Where; Coalesce].

(* what a map_prefix arm builds *)
Inductive prefix_ctor := PUn (u : unop) | PSpread.

Definition affix_eqb (a b : affix) : bool :=
  match a, b with
  | Prefix, Prefix | Postfix, Postfix | Infix ALeft, Infix ALeft | Infix ARight, Infix ARight => true
  | _, _ => false
  end.
Definition assoc_eqb (a b : assoc) : bool :=
  match a, b with ALeft, ALeft | ARight, ARight => true | _, _ => false end.

(* ---- the token stream ---- *)
Inductive item :=
(* primaries (rules that are not registered as operators) *)
| INum (x : num)                      (* Rule::number whose text converts to x *)
| IBadNum                             (* Rule::number whose conversion returns Err (0x literal > i64) *)
| IStr (s : string)                   (* Rule::string, s = inner string_value text *)
| IBool (b : bool)
| INull
| IIdent (s : string)                 (* Rule::identifier *)
| IInRef (s : string)                 (* Rule::input_reference, s = text after '#' *)
| IExpr (paren : bool) (g : list item)
    (* Rule::expression pair with inner pairs g: a nested_expression "( … )" when paren, or the
       bare expression of spread_expression / record_key_dynamic / access *)
| IList (els : list lelem)
| IRecord (els : list relem)
| ILambda (args : list lamarg) (body : list item)
| ICond (c t e : list item)
| IDo (els : list delem)
| IAssign (x : string) (v : list item)
(* operators *)
| IOp (r : oprule)                    (* infix / prefix / factorial pair (no inner pairs used) *)
| IAccess (inner : list item)         (* Rule::access; inner = its into_inner() *)
| IDot (f : string)                   (* Rule::dot_access, f = inner identifier text *)
| ICall (args : list (list item))     (* Rule::call_list; one entry per argument pair = its into_inner() *)
with lelem :=                         (* inner pairs of Rule::list *)
| LCom (s : string)
| LItem (g : list item) (eol : option string)
with relem :=                         (* inner pairs of Rule::record *)
| RCom (s : string)
| RPairI (k : rkeyi) (v : list item) (eol : option string)
| RShortI (s : string) (eol : option string)
| RSpreadI (g : list item) (eol : option string)
with rkeyi := RKId (s : string) | RKStr (s : string) | RKDyn (inner : list item)
with delem :=                         (* inner pairs of Rule::do_block *)
| DStmt (g : list item) (c : option string)      (* do_statement = expression ~ comment? *)
| DComStmt (s : string) (c : option string)      (* do_statement = comment ~ comment? *)
| DRet (g : list item)
| DCom (s : string).

(* the operator rule of a pair, None for primaries *)
Definition item_op (i : item) : option oprule :=
  match i with
  | IOp r => Some r
  | IAccess _ => Some R_access
  | IDot _ => Some R_dot_access
  | ICall _ => Some R_call_list
  | _ => None
  end.

Fixpoint assoc_find {A} (r : oprule) (l : list (oprule * A)) : option A :=
  match l with
  | [] => None
  | (k, v) :: l' => if oprule_eqb k r then Some v else assoc_find r l'
  end.
