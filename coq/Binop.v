(* Binop.v — everything blots-core/src/expressions.rs::evaluate_binary_op_ast does AFTER
   lhs and rhs have been evaluated (lines ~863-1820), transcribed as written:
     1. the six dot operators return first (they never broadcast);
     2. `match (lhs, rhs)`:
          (_, List) if op == Into          -> error
          (List, List)                     -> arm_list_list   (length check, then 26 operator cases)
          (List, scalar) | (scalar, List)  -> arm_list_scalar (is_list_first, 26 operator cases)
          (lhs, rhs)                       -> arm_scalar      (26 operator cases)
   Definitions only (no proofs).  Nothing is tidied: the operand order of every case is the
   one in the Rust text (e.g. the list∘scalar arm computes `v * scalar` and `v.equals(&scalar)`
   whichever side the list is on, but `scalar - v` when the scalar is first), `list[idx]`
   inside `for idx in 0..list_len` loops is an explicit Panic when out of range, and the
   unreachable!() arms are Panic.  Error messages / spans are not modelled (Err).

   Interface (fixed; the evaluator model imports it):
     Section Binop.
       Variable St : Type.
       Variable call : value -> value -> list value -> St -> outcome value * St.
           (* this_value, function value, args, state: FunctionDef::call incl. arity and depth
              checks; the binop code passes the function itself as this_value *)
       Variable fn_accepts2 : value -> bool.   (* func_def.arity().can_accept(2) *)
       Variable powf : num -> num -> num.      (* f64::powf (libm) — oracle *)
       Definition eval_binop (op : binop) (lhs rhs : value) (st : St) : outcome value * St.
     End Binop.
   [fn_accepts2_of_value] below is the value-derived instance of fn_accepts2
   (LambdaDef::get_arity / BuiltInFunction::arity + FunctionArity::can_accept). *)
From Coq Require Import String Ascii List ZArith Bool.
Require Import Blots.Num Blots.gen.Builtins Blots.Ast Blots.Value Blots.Outcome.
Import ListNotations.

(* ---------- values.rs accessors used by the binop code ---------- *)
Definition as_number (v : value) : outcome num := match v with VNum n => Ok n | _ => Err end.
Definition as_bool (v : value) : outcome bool := match v with VBool b => Ok b | _ => Err end.
Definition as_string (v : value) : outcome string := match v with VStr s => Ok s | _ => Err end.
Definition is_list (v : value) : bool := match v with VList _ => true | _ => false end.
Definition is_string (v : value) : bool := match v with VStr _ => true | _ => false end.
Definition is_null (v : value) : bool := match v with VNull => true | _ => false end.
Definition is_lambda (v : value) : bool := match v with VLam _ _ _ _ => true | _ => false end.
Definition is_built_in (v : value) : bool := match v with VBuiltin _ => true | _ => false end.
Definition is_callable (v : value) : bool := is_lambda v || is_built_in v.

(* FunctionArity::can_accept, LambdaDef::get_arity *)
Definition arity_can_accept (a : arity) (n : nat) : bool :=
  match a with
  | AExact e => Nat.eqb n e
  | ABetween lo hi => Nat.leb lo n && Nat.leb n hi
  | AAtLeast lo => Nat.leb lo n
  end.
(* follows repo fix dbc5881: `min` is one past the position of the LAST Required parameter
   (args.iter().rposition(is_required).map_or(0, |i| i + 1)), not the count of required parameters *)
Fixpoint min_args (args : list lamarg) (i acc : nat) : nat :=
  match args with
  | [] => acc
  | a :: r => min_args r (S i) (if arg_is_req a then S i else acc)
  end.
Definition lambda_arity (args : list lamarg) : arity :=
  let has_rest := existsb arg_is_rest args in
  let mn := min_args args 0 0 in
  let mx := length args in
  if has_rest then AAtLeast mn else if Nat.eqb mn mx then AExact mn else ABetween mn mx.
(* get_function_def(v).arity().can_accept(2); false for non-functions (never asked there) *)
Definition fn_accepts2_of_value (v : value) : bool :=
  match v with
  | VLam _ args _ _ => arity_can_accept (lambda_arity args) 2
  | VBuiltin b => arity_can_accept (builtin_arity b) 2
  | _ => false
  end.

(* expressions.rs::check_ordering : None -> Err("cannot compare ..") *)
Definition check_ord (o : option comparison) (expected : list comparison) : outcome bool :=
  of_option (check_ordering o expected).

(* Rust expression shape  `Number(a.as_number()? OP b.as_number()?)`  (a inspected first) *)
Definition num2 (f : num -> num -> num) (a b : value) : outcome value :=
  do x <- as_number a; do y <- as_number b; Ok (VNum (f x y)).
(* `Bool(a.as_bool()? && b.as_bool()?)` : Rust's && evaluates its right operand — including
   the `?` — only when the left one is true;  `||` only when it is false *)
Definition and_q (a b : value) : outcome value :=
  do x <- as_bool a; if x then (do y <- as_bool b; Ok (VBool y)) else Ok (VBool false).
Definition or_q (a b : value) : outcome value :=
  do x <- as_bool a; if x then Ok (VBool true) else (do y <- as_bool b; Ok (VBool y)).

(* `expected` of the Less|LessEq|Greater|GreaterEq cases; `_ => unreachable!()` *)
Definition expected_of (op : binop) : outcome (list comparison) :=
  match op with
  | Less => Ok [Lt] | LessEq => Ok [Lt; Eq] | Greater => Ok [Gt] | GreaterEq => Ok [Gt; Eq]
  | _ => Panic
  end.

(* `list[idx]` : index out of bounds aborts *)
Definition index (l : list value) (idx : nat) : outcome value :=
  match nth_error l idx with Some v => Ok v | None => Panic end.

(* `idx as f64` *)
Definition num_of_idx (idx : nat) : num := num_of_Z (Z.of_nat idx).

(* the `(String, String) / (Number, Number) / _ => error` match of the two broadcasting Add cases *)
Definition add_match (a b : value) : outcome value :=
  match a, b with
  | VStr _, VStr _ => do xs <- as_string a; do ys <- as_string b; Ok (VStr (xs ++ ys))
  | VNum _, VNum _ => num2 nadd a b
  | _, _ => Err
  end.

Section Binop.
  Variable St : Type.
  Variable call : value -> value -> list value -> St -> outcome value * St.
  Variable fn_accepts2 : value -> bool.
  Variable powf : num -> num -> num.

  (* state-and-outcome monad of the evaluator: `?` returns with the state reached so far *)
  Definition M (A : Type) : Type := St -> outcome A * St.
  Definition lift {A} (o : outcome A) : M A := fun st => (o, st).
  Definition bindM {A B} (m : M A) (f : A -> M B) : M B :=
    fun st =>
      match m st with
      | (Ok a, st1) => f a st1
      | (Err, st1) => (Err, st1)
      | (ErrDepth, st1) => (ErrDepth, st1)
      | (Panic, st1) => (Panic, st1)
      | (Unmodelled, st1) => (Unmodelled, st1)
      end.
  (* `for idx in 0..n { ... push(body(idx)?) }` *)
  Fixpoint for_each {B} (idxs : list nat) (body : nat -> M B) : M (list B) :=
    match idxs with
    | [] => lift (Ok [])
    | i :: r => bindM (body i) (fun y => bindM (for_each r body) (fun ys => lift (Ok (y :: ys))))
    end.
  Fixpoint filter_some {A} (l : list (option A)) : list A :=
    match l with [] => [] | Some x :: r => x :: filter_some r | None :: r => filter_some r end.

  (* def.call(f, args, ...) with this_value = the function itself *)
  Definition call_fn (f : value) (args : list value) : M value := call f f args.

  (* ------------------------------------------------------------------ (List, List) *)
  Definition arm_list_list (op : binop) (l_list r_list : list value) : M value :=
    if negb (Nat.eqb (length l_list) (length r_list)) then lift Err   (* "must be the same length" *)
    else
    let list_len := length l_list in
    let zipped := combine l_list r_list in                             (* l_list.iter().zip(r_list.iter()) *)
    match op with
    | Equal =>
        lift (omap VList (mapM (fun lr => Ok (VBool (equals (fst lr) (snd lr)))) zipped))
    | NotEqual =>
        lift (omap VList (mapM (fun lr => Ok (VBool (negb (equals (fst lr) (snd lr))))) zipped))
    | Less | LessEq | Greater | GreaterEq =>
        lift (do expected <- expected_of op;
              omap VList (mapM (fun lr =>
                do result <- check_ord (compare (fst lr) (snd lr)) expected; Ok (VBool result)) zipped))
    | And | NaturalAnd =>
        lift (omap VList (mapM (fun lr => and_q (fst lr) (snd lr)) zipped))
    | Or | NaturalOr =>
        lift (omap VList (mapM (fun lr => or_q (fst lr) (snd lr)) zipped))
    | Add =>
        lift (omap VList (mapM (fun idx =>
                do l <- index l_list idx; do r <- index r_list idx; add_match l r) (seq 0 list_len)))
    | Subtract =>
        lift (omap VList (mapM (fun lr => num2 nsub (fst lr) (snd lr)) zipped))
    | Multiply =>
        lift (omap VList (mapM (fun lr => num2 nmul (fst lr) (snd lr)) zipped))
    | Divide =>
        lift (omap VList (mapM (fun lr => num2 ndiv (fst lr) (snd lr)) zipped))
    | Modulo =>
        lift (omap VList (mapM (fun lr => num2 nfmod (fst lr) (snd lr)) zipped))
    | Power =>
        lift (omap VList (mapM (fun lr => num2 powf (fst lr) (snd lr)) zipped))
    | Coalesce =>
        lift (omap VList (mapM (fun lr => Ok (if is_null (fst lr) then snd lr else fst lr)) zipped))
    | Via =>
        bindM (for_each (seq 0 list_len) (fun idx =>
                 bindM (lift (do l <- index l_list idx; do r <- index r_list idx; Ok (l, r))) (fun lr =>
                   let l := fst lr in let r := snd lr in
                   if negb (is_lambda r) && negb (is_built_in r) then lift Err   (* non-function *)
                   else call_fn r [l])))
              (fun mapped => lift (Ok (VList mapped)))
    | Into => lift Panic          (* unreachable!("Into operator should not reach list-to-list evaluation") *)
    | Where => lift Err
    | DotEqual | DotNotEqual | DotLess | DotLessEq | DotGreater | DotGreaterEq =>
        lift Panic                (* unreachable!("Dot operators should be handled before list broadcasting") *)
    end.

  (* ------------------------------------------------------------------ (List, scalar) | (scalar, List) *)
  Definition arm_list_scalar (op : binop) (is_list_first : bool) (list : list value) (scalar : value)
    : M value :=
    let list_len := length list in
    match op with
    | Equal =>
        lift (omap VList (mapM (fun v => Ok (VBool (equals v scalar))) list))
    | NotEqual =>
        lift (omap VList (mapM (fun v => Ok (VBool (negb (equals v scalar)))) list))
    | Less | LessEq | Greater | GreaterEq =>
        lift (do expected <- expected_of op;
              omap VList (mapM (fun v =>
                let ordering := if is_list_first then compare v scalar else compare scalar v in
                do result <- check_ord ordering expected; Ok (VBool result)) list))
    | And | NaturalAnd =>
        lift (omap VList (if is_list_first then mapM (fun v => and_q v scalar) list
                          else mapM (fun v => and_q scalar v) list))
    | Or | NaturalOr =>
        lift (omap VList (if is_list_first then mapM (fun v => or_q v scalar) list
                          else mapM (fun v => or_q scalar v) list))
    | Add =>
        lift (omap VList (mapM (fun idx =>
                do item <- index list idx;
                if is_list_first then add_match item scalar else add_match scalar item) (seq 0 list_len)))
    | Subtract =>
        lift (omap VList (mapM (fun v =>
                if is_list_first then num2 nsub v scalar else num2 nsub scalar v) list))
    | Multiply =>
        lift (omap VList (mapM (fun v => num2 nmul v scalar) list))         (* both orders: v * scalar *)
    | Divide =>
        lift (omap VList (mapM (fun v =>
                if is_list_first then num2 ndiv v scalar else num2 ndiv scalar v) list))
    | Modulo =>
        lift (omap VList (mapM (fun v =>
                if is_list_first then num2 nfmod v scalar else num2 nfmod scalar v) list))
    | Power =>
        lift (omap VList (mapM (fun v =>
                if is_list_first then num2 powf v scalar else num2 powf scalar v) list))
    | Coalesce =>
        lift (omap VList (mapM (fun v =>
                Ok (if is_list_first then (if is_null v then scalar else v)
                    else if is_null scalar then v else scalar)) list))
    | Via =>
        if is_list_first then
          if negb (is_callable scalar) then lift Err
          else
            let func_accepts_two_args := fn_accepts2 scalar in
            bindM (for_each (seq 0 list_len) (fun idx =>
                     bindM (lift (index list idx)) (fun item =>
                       let args := if func_accepts_two_args then [item; VNum (num_of_idx idx)] else [item] in
                       call_fn scalar args)))
                  (fun mapped => lift (Ok (VList mapped)))
        else lift Err                                         (* "via operator requires function on right side" *)
    | Into =>
        if is_list_first then
          if negb (is_callable scalar) then lift Err
          else call_fn scalar [VList list]
        else lift Err
    | Where =>
        if is_list_first then
          if negb (is_callable scalar) then lift Err
          else
            let func_accepts_two_args := fn_accepts2 scalar in
            bindM (for_each (seq 0 list_len) (fun idx =>
                     bindM (lift (index list idx)) (fun item =>
                       let args := if func_accepts_two_args then [item; VNum (num_of_idx idx)] else [item] in
                       bindM (call_fn scalar args) (fun result =>
                         bindM (lift (as_bool result)) (fun keep =>
                           lift (Ok (if keep then Some item else None)))))))
                  (fun kept => lift (Ok (VList (filter_some kept))))
        else lift Err
    | DotEqual | DotNotEqual | DotLess | DotLessEq | DotGreater | DotGreaterEq =>
        lift Panic
    end.

  (* ------------------------------------------------------------------ (lhs, rhs) — neither is a list *)
  Definition arm_scalar (op : binop) (lhs rhs : value) : M value :=
    match op with
    | Equal => lift (Ok (VBool (equals lhs rhs)))
    | NotEqual => lift (Ok (VBool (negb (equals lhs rhs))))
    | Less => lift (do r <- check_ord (compare lhs rhs) [Lt]; Ok (VBool r))
    | LessEq => lift (do r <- check_ord (compare lhs rhs) [Lt; Eq]; Ok (VBool r))
    | Greater => lift (do r <- check_ord (compare lhs rhs) [Gt]; Ok (VBool r))
    | GreaterEq => lift (do r <- check_ord (compare lhs rhs) [Gt; Eq]; Ok (VBool r))
    | And | NaturalAnd => lift (and_q lhs rhs)
    | Or | NaturalOr => lift (or_q lhs rhs)
    | Add =>
        if is_string lhs then
          lift (do l_str <- as_string lhs; do r_str <- as_string rhs; Ok (VStr (l_str ++ r_str)))
        else lift (num2 nadd lhs rhs)
    | Subtract => lift (num2 nsub lhs rhs)
    | Multiply => lift (num2 nmul lhs rhs)
    | Divide => lift (num2 ndiv lhs rhs)
    | Modulo => lift (num2 nfmod lhs rhs)
    | Power => lift (num2 powf lhs rhs)
    | Coalesce => lift (Ok (if is_null lhs then rhs else lhs))
    | Via =>
        if negb (is_callable rhs) then lift Err
        else call_fn rhs [lhs]          (* get_function_def is Some for every callable value *)
    | Into =>
        if negb (is_callable rhs) then lift Err
        else call_fn rhs [lhs]
    | Where => lift Err                 (* "where operator requires a list on the left side" *)
    | DotEqual | DotNotEqual | DotLess | DotLessEq | DotGreater | DotGreaterEq =>
        lift Panic
    end.

  (* ------------------------------------------------------------------ the function *)
  Definition eval_binop (op : binop) (lhs rhs : value) (st : St) : outcome value * St :=
    match op with
    (* "Handle dot operators first - they never broadcast" *)
    | DotEqual => (Ok (VBool (equals lhs rhs)), st)
    | DotNotEqual => (Ok (VBool (negb (equals lhs rhs))), st)
    | DotLess => (do r <- check_ord (compare lhs rhs) [Lt]; Ok (VBool r), st)
    | DotLessEq => (do r <- check_ord (compare lhs rhs) [Lt; Eq]; Ok (VBool r), st)
    | DotGreater => (do r <- check_ord (compare lhs rhs) [Gt]; Ok (VBool r), st)
    | DotGreaterEq => (do r <- check_ord (compare lhs rhs) [Gt; Eq]; Ok (VBool r), st)
    | _ =>
        (* match (lhs, rhs) *)
        if is_list rhs && binop_eqb op Into then (Err, st)       (* (_, List) if op == Into *)
        else
        match lhs, rhs with
        | VList list_l, VList list_r => arm_list_list op list_l list_r st
        | VList list, scalar => arm_list_scalar op true list scalar st
        | scalar, VList list => arm_list_scalar op false list scalar st
        | _, _ => arm_scalar op lhs rhs st
        end
    end.
End Binop.
