(* EmitRunFull.v — EmitRun.emit_behaviour with the FULL built-in dispatcher (EvalFull.eval_full): what the
   EMIT-FULLBI correspondence of checks/c05.py runs, so that function bodies using the aggregates, the list /
   string / record built-ins and sort_by / group_by / count_by are compared with the implementation instead
   of being skipped as Unmodelled.  Definitions only. *)
From Coq Require Import String Ascii List ZArith Bool.
Require Import Blots.Num Blots.gen.Builtins Blots.Ast Blots.Value Blots.Outcome Blots.Env
               Blots.Eval Blots.Program Blots.EvalInst Blots.EvalFull Blots.Show Blots.Emit Blots.EmitRun.
Import ListNotations.
Open Scope list_scope.
Open Scope string_scope.

Definition call_show_full (st : store) (f : value) (inputs : list (string * value)) (call : expr) : string :=
  show_out (fst (eval_full (call_cfg st f inputs) call)).

Definition emit_behaviour_full (nanfix dofix : bool) (st : store) (v : value) (calls : list expr) : string :=
  let reloaded :=
    match emit_ast nanfix dofix v with
    | Some e => reload_ast (Datatypes.length st) e
    | None => None
    end in
  join " " (map (fun c =>
                   call_show_full st v [] c ++ "/" ++
                   match reloaded with
                   | Some v' => call_show_full (st ++ [None])%list v' [("f", v')] c
                   | None => "NOFUN"
                   end) calls).
