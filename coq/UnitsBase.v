(* UnitsBase.v — types of the unit table (blots-core/src/units.rs: UnitCategory, ConversionType,
   Unit), the arithmetic the conversion code is written over, and its two instances:
     - [fl]  IEEE-754 binary64 (Num.v), what the Rust code computes;
     - [qx]  the rationals extended by one point at infinity, exact arithmetic, used to state
             the algebraic laws of C17 about the SAME conversion code.
   Definitions only. *)
From Coq Require Import ZArith QArith String List Bool Ascii Floats.SpecFloat.
Require Import Blots.Num.
Import ListNotations.
Open Scope Z_scope.

(* A numeric constant of the Rust source: its f64 bit pattern (what the compiled code holds)
   and a decimal m * 10^e that rounds to it (the shortest one, as printed by Rust's Display). *)
Record literal := Lit { l_bits : Z; l_m : Z; l_e : Z }.

(* the five temperature functions of units.rs (function pointers in ConversionType::Temperature) *)
Inductive tempfn :=
| TF_celsius_to_kelvin | TF_kelvin_to_celsius
| TF_fahrenheit_to_kelvin | TF_kelvin_to_fahrenheit
| TF_kelvin_to_kelvin.

Inductive conversion :=
| Linear (coefficient : literal)
| Reciprocal (coefficient : literal)
| Temperature (to_kelvin from_kelvin : tempfn).

(* struct Unit.  [u_idx] is the position in get_all_units() (ghost: used only to state
   "resolves to its own unit"); [u_cat] is the Debug name of the UnitCategory variant;
   [u_lower] is identifiers.map(to_lowercase) as Rust computes it (dumped, not modelled). *)
Record unit := Unit {
  u_idx : Z;
  u_cat : string;
  u_ids : list string;
  u_lower : list string;
  u_conv : conversion
}.

(* ---------------------------------------------------------------- arithmetic interface *)
Record arith := Arith {
  T : Type;
  a_add : T -> T -> T;
  a_sub : T -> T -> T;
  a_mul : T -> T -> T;
  a_div : T -> T -> T;
  a_lit : literal -> T;
  a_is_zero : T -> bool;        (* Rust: value == 0.0 *)
  a_inf : T                     (* Rust: f64::INFINITY *)
}.

(* binary64 *)
Definition fl : arith :=
  Arith num nadd nsub nmul ndiv (fun l => num_of_bits (l_bits l)) (fun x => neqb x nzero) npinf.

(* Q with a point at infinity *)
Inductive qx := Fin (q : Q) | Inf.
Definition qzero (q : Q) : bool := Qeq_bool q 0.
Definition qx_add (a b : qx) : qx := match a, b with Fin x, Fin y => Fin (x + y)%Q | _, _ => Inf end.
Definition qx_sub (a b : qx) : qx := match a, b with Fin x, Fin y => Fin (x - y)%Q | _, _ => Inf end.
Definition qx_mul (a b : qx) : qx := match a, b with Fin x, Fin y => Fin (x * y)%Q | _, _ => Inf end.
Definition qx_div (a b : qx) : qx :=
  match a, b with
  | Fin x, Fin y => if qzero y then Inf else Fin (x / y)%Q
  | Fin _, Inf => Fin 0%Q
  | Inf, _ => Inf
  end.
(* m * 10^e exactly *)
Definition Qpow10 (e : Z) : Q :=
  match e with
  | Z0 => 1%Q
  | Zpos p => inject_Z (10 ^ Zpos p)
  | Zneg p => (1 # Z.to_pos (10 ^ Zpos p))%Q
  end.
Definition Q_of_decimal (m e : Z) : Q := (inject_Z m * Qpow10 e)%Q.
Definition lit_Q (l : literal) : Q := Q_of_decimal (l_m l) (l_e l).
Definition qx_is_zero (a : qx) : bool := match a with Fin x => qzero x | Inf => false end.
Definition qa : arith :=
  Arith qx qx_add qx_sub qx_mul qx_div (fun l => Fin (lit_Q l)) qx_is_zero Inf.

Definition qx_eq (a b : qx) : Prop :=
  match a, b with Fin x, Fin y => (x == y)%Q | Inf, Inf => True | _, _ => False end.

(* exact rational value of a finite binary64 *)
Definition Q_of_num (x : num) : option Q :=
  match x with
  | S754_zero _ => Some 0%Q
  | S754_finite s m e =>
      let mz := if s then Zneg m else Zpos m in
      Some (match e with
            | Z0 => inject_Z mz
            | Zpos p => inject_Z (mz * 2 ^ Zpos p)
            | Zneg p => (mz # Z.to_pos (2 ^ Zpos p))%Q
            end)
  | _ => None
  end.

(* ---------------------------------------------------------------- decimal -> binary64 *)
(* nearest-even binary64 to p/q (p, q > 0): scale so that the quotient has >= 56 bits, append a
   sticky bit, and let SpecFloat.binary_round round the resulting dyadic. *)
Definition rn_ratio (s : bool) (p q : positive) : num :=
  let k := Z.max 0 (57 + Z.log2_up (Zpos q) - Z.log2 (Zpos p)) in
  let n := Zpos p * 2 ^ k in
  let d := n / Zpos q in
  let r := n mod Zpos q in
  match 2 * d + (if r =? 0 then 0 else 1) with
  | Zpos m => binary_round prec emax s m (- k - 1)
  | _ => S754_zero s
  end.
Definition rn_decimal (m e : Z) : num :=
  match m with
  | Z0 => S754_zero false
  | Zpos p =>
      match e with
      | Zneg pe => rn_ratio false p (Z.to_pos (10 ^ Zpos pe))
      | _ => rn_ratio false (Z.to_pos (Zpos p * 10 ^ e)) 1
      end
  | Zneg p =>
      match e with
      | Zneg pe => rn_ratio true p (Z.to_pos (10 ^ Zpos pe))
      | _ => rn_ratio true (Z.to_pos (Zpos p * 10 ^ e)) 1
      end
  end.
Definition literal_ok (l : literal) : bool := bits_of_num (rn_decimal (l_m l) (l_e l)) =? l_bits l.

(* constants of the temperature functions: 273.15, 32.0, 5.0, 9.0 *)
Definition lit_273_15 : literal := Lit 0x4071126666666666 27315 (-2).
Definition lit_32 : literal := Lit 0x4040000000000000 32 0.
Definition lit_5 : literal := Lit 0x4014000000000000 5 0.
Definition lit_9 : literal := Lit 0x4022000000000000 9 0.
