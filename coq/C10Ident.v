(* C10Ident.v — definitions only.  The grammar rules that decide whether a word is read as a name,
   transcribed as PEG matchers on strings (result = the remaining input):
     identifier       = @{ !(reserved_word ~ !identifier_rest) ~ (ASCII_ALPHA | "_")+ ~ identifier_rest* }
     identifier_rest  = _{ ASCII_ALPHA+ | ASCII_DIGIT+ | "_"+ }
     reserved_word    = _{ "if" | "then" | ... }                 (list GENERATED: gen/IdentRules.v)
     bool             =  { "true" | "false" }   or   { ("true" | "false") ~ !identifier_rest }
     null             =  { "null" }             or   { "null" ~ !identifier_rest }
   and the ordered choice among bool / null / identifier inside `term` (order GENERATED).
   PEG semantics: ordered choice commits to the first alternative that matches; e+ and e* are greedy
   and never give characters back; !e consumes nothing.  These rules are all inside the
   compound-atomic `expression`, so no implicit whitespace is skipped. *)
From Coq Require Import String Ascii List Bool Arith.
Import ListNotations.
Local Open Scope string_scope.

Inductive atom_alt := ABool | ANull | AIdent.

Definition is_alpha (c : ascii) : bool :=
  let n := nat_of_ascii c in
  (Nat.leb 65 n && Nat.leb n 90) || (Nat.leb 97 n && Nat.leb n 122).
Definition is_digit (c : ascii) : bool :=
  let n := nat_of_ascii c in Nat.leb 48 n && Nat.leb n 57.
Definition is_us (c : ascii) : bool := Nat.eqb (nat_of_ascii c) 95.
Definition is_alpha_us (c : ascii) : bool := is_alpha c || is_us c.
Definition ident_char (c : ascii) : bool := is_alpha c || is_digit c || is_us c.

(* a literal *)
Fixpoint lit (p s : string) : option string :=
  match p with
  | EmptyString => Some s
  | String a p' =>
      match s with
      | String b s' => if Ascii.eqb a b then lit p' s' else None
      | EmptyString => None
      end
  end.
(* c* and c+ for a character class (greedy) *)
Fixpoint star_class (f : ascii -> bool) (s : string) : string :=
  match s with
  | String c s' => if f c then star_class f s' else s
  | EmptyString => EmptyString
  end.
Definition plus_class (f : ascii -> bool) (s : string) : option string :=
  match s with
  | String c s' => if f c then Some (star_class f s') else None
  | EmptyString => None
  end.
Definition orelse (a b : option string) : option string := match a with Some r => Some r | None => b end.
Definition fails (m : option string) : bool := match m with Some _ => false | None => true end.

Definition identifier_rest (s : string) : option string :=
  orelse (plus_class is_alpha s) (orelse (plus_class is_digit s) (plus_class is_us s)).
(* identifier_rest*: every iteration consumes at least one character, so length s iterations suffice *)
Fixpoint star_rest (fuel : nat) (s : string) : string :=
  match fuel with
  | O => s
  | S f => match identifier_rest s with Some r => star_rest f r | None => s end
  end.
Fixpoint first_lit (ws : list string) (s : string) : option string :=
  match ws with
  | [] => None
  | w :: ws' => orelse (lit w s) (first_lit ws' s)
  end.

Section Rules.
  Variable reserved : list string.
  Variables bb nb : bool.             (* bool / null carry the look-ahead `~ !identifier_rest` *)

  Definition identifier (s : string) : option string :=
    (* !(reserved_word ~ !identifier_rest) *)
    let blocked :=
        match first_lit reserved s with
        | Some r => fails (identifier_rest r)
        | None => false
        end in
    if blocked then None
    else match plus_class is_alpha_us s with
         | Some r => Some (star_rest (String.length r) r)
         | None => None
         end.
  Definition guard (b : bool) (m : option string) : option string :=
    match m with
    | Some r => if b then (if fails (identifier_rest r) then Some r else None) else Some r
    | None => None
    end.
  Definition bool_rule (s : string) : option string := guard bb (orelse (lit "true" s) (lit "false" s)).
  Definition null_rule (s : string) : option string := guard nb (lit "null" s).

  Definition alt_rule (a : atom_alt) : string -> option string :=
    match a with ABool => bool_rule | ANull => null_rule | AIdent => identifier end.
  (* the ordered choice of `term`, restricted to the three alternatives a word can match *)
  Fixpoint term_word (order : list atom_alt) (s : string) : option (atom_alt * string) :=
    match order with
    | [] => None
    | a :: order' =>
        match alt_rule a s with
        | Some r => Some (a, r)
        | None => term_word order' s
        end
    end.
End Rules.

(* names of the property: letters, digits, underscores, not starting with a digit *)
Fixpoint all_chars (f : ascii -> bool) (s : string) : bool :=
  match s with EmptyString => true | String c s' => f c && all_chars f s' end.
Definition valid_name (s : string) : bool :=
  match s with
  | String c s' => is_alpha_us c && all_chars ident_char s'
  | EmptyString => false
  end.
(* what follows the name: end of input or a character that cannot continue a name *)
Definition boundary (rest : string) : bool :=
  match rest with EmptyString => true | String c _ => negb (ident_char c) end.
Definition is_reserved (reserved : list string) (s : string) : bool := existsb (String.eqb s) reserved.
(* the class of the open known finding C10-bool-null-prefix *)
Definition known_C10 (s : string) : bool :=
  negb (fails (lit "true" s)) || negb (fails (lit "false" s)) || negb (fails (lit "null" s)).
