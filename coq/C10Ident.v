(* C10Ident.v — definitions only.  The grammar rules that decide whether a word is read as a name,
   transcribed as PEG matchers on strings (result = the remaining input):
     identifier       = @{ !(reserved_word ~ !identifier_rest) ~ (ASCII_ALPHA | "_")+ ~ identifier_rest* }
     identifier_rest  = _{ ASCII_ALPHA+ | ASCII_DIGIT+ | "_"+ }
     reserved_word    = _{ "if" | "then" | ... }                 (list GENERATED: gen/IdentRules.v)
     bool             =  { "true" | "false" }   or   { ("true" | "false") ~ !identifier_rest }
     null             =  { "null" }             or   { "null" ~ !identifier_rest }
   and the ordered choice among bool / null / identifier inside `term` (order GENERATED).
   PEG semantics: ordered choice commits to the first alternative that matches; e+ and e* are greedy
   and never give characters back; !e consumes nothing.  These rules are all inside the
   compound-atomic `expression`, so no implicit whitespace is skipped. *)
From Coq Require Import String Ascii List Bool Arith.
Require Import Blots.Num Blots.gen.Builtins Blots.Ast Blots.PrattTypes.
Import ListNotations.
Local Open Scope string_scope.

Inductive atom_alt := ABool | ANull | AIdent.
Inductive postfix_alt := PFactorial | PAccess | PCall | PDot.

Definition is_alpha (c : ascii) : bool :=
  let n := nat_of_ascii c in
  (Nat.leb 65 n && Nat.leb n 90) || (Nat.leb 97 n && Nat.leb n 122).
Definition is_digit (c : ascii) : bool :=
  let n := nat_of_ascii c in Nat.leb 48 n && Nat.leb n 57.
Definition is_us (c : ascii) : bool := Nat.eqb (nat_of_ascii c) 95.
Definition is_alpha_us (c : ascii) : bool := is_alpha c || is_us c.
Definition ident_char (c : ascii) : bool := is_alpha c || is_digit c || is_us c.

(* a literal *)
Fixpoint lit (p s : string) : option string :=
  match p with
  | EmptyString => Some s
  | String a p' =>
      match s with
      | String b s' => if Ascii.eqb a b then lit p' s' else None
      | EmptyString => None
      end
  end.
(* c* and c+ for a character class (greedy) *)
Fixpoint star_class (f : ascii -> bool) (s : string) : string :=
  match s with
  | String c s' => if f c then star_class f s' else s
  | EmptyString => EmptyString
  end.
Definition plus_class (f : ascii -> bool) (s : string) : option string :=
  match s with
  | String c s' => if f c then Some (star_class f s') else None
  | EmptyString => None
  end.
Definition orelse (a b : option string) : option string := match a with Some r => Some r | None => b end.
Definition fails (m : option string) : bool := match m with Some _ => false | None => true end.

Definition identifier_rest (s : string) : option string :=
  orelse (plus_class is_alpha s) (orelse (plus_class is_digit s) (plus_class is_us s)).
(* identifier_rest*: every iteration consumes at least one character, so length s iterations suffice *)
Fixpoint star_rest (fuel : nat) (s : string) : string :=
  match fuel with
  | O => s
  | S f => match identifier_rest s with Some r => star_rest f r | None => s end
  end.
Fixpoint first_lit (ws : list string) (s : string) : option string :=
  match ws with
  | [] => None
  | w :: ws' => orelse (lit w s) (first_lit ws' s)
  end.

Section Rules.
  Variable reserved : list string.
  Variables bb nb : bool.             (* bool / null carry the look-ahead `~ !identifier_rest` *)

  Definition identifier (s : string) : option string :=
    (* !(reserved_word ~ !identifier_rest) *)
    let blocked :=
        match first_lit reserved s with
        | Some r => fails (identifier_rest r)
        | None => false
        end in
    if blocked then None
    else match plus_class is_alpha_us s with
         | Some r => Some (star_rest (String.length r) r)
         | None => None
         end.
  Definition guard (b : bool) (m : option string) : option string :=
    match m with
    | Some r => if b then (if fails (identifier_rest r) then Some r else None) else Some r
    | None => None
    end.
  Definition bool_rule (s : string) : option string := guard bb (orelse (lit "true" s) (lit "false" s)).
  Definition null_rule (s : string) : option string := guard nb (lit "null" s).

  Definition alt_rule (a : atom_alt) : string -> option string :=
    match a with ABool => bool_rule | ANull => null_rule | AIdent => identifier end.
  (* the ordered choice of `term`, restricted to the three alternatives a word can match *)
  Fixpoint term_word (order : list atom_alt) (s : string) : option (atom_alt * string) :=
    match order with
    | [] => None
    | a :: order' =>
        match alt_rule a s with
        | Some r => Some (a, r)
        | None => term_word order' s
        end
    end.
End Rules.

(* names of the property: letters, digits, underscores, not starting with a digit *)
Fixpoint all_chars (f : ascii -> bool) (s : string) : bool :=
  match s with EmptyString => true | String c s' => f c && all_chars f s' end.
Definition valid_name (s : string) : bool :=
  match s with
  | String c s' => is_alpha_us c && all_chars ident_char s'
  | EmptyString => false
  end.
(* what follows the name: end of input or a character that cannot continue a name *)
Definition boundary (rest : string) : bool :=
  match rest with EmptyString => true | String c _ => negb (ident_char c) end.
Definition is_reserved (reserved : list string) (s : string) : bool := existsb (String.eqb s) reserved.
(* the class of the open known finding C10-bool-null-prefix *)
Definition known_C10 (s : string) : bool :=
  negb (fails (lit "true" s)) || negb (fails (lit "false" s)) || negb (fails (lit "null" s)).

(* ------------------------------------------------------------------ what follows an operand
   expression = ${ prefix_usage* ~ term ~ postfix_op* ~ (infix_usage ~ ...)* }: after a term, the
   greedy postfix_op* runs first (factorial | access | call_list | dot_access in the GENERATED order),
   then the symbol alternative of infix_usage: (WHITESPACE | NEWLINE)* ~ infix_op ~ (WHITESPACE | NEWLINE)*
   with infix_op the GENERATED ordered choice.  Only what a symbol operator can run into is
   modelled: `[` and `(` (access / call_list) end the model with AfterUnmodelled, inline comments
   inside NEWLINE are not modelled (blanks and plain newlines are). *)
Inductive after_operand :=
| AfterOp (factorials : nat) (dots : nat) (r : oprule) (rest : string)
| AfterNothing (factorials : nat) (dots : nat) (rest : string)      (* no infix operator: the expression ends *)
| AfterUnmodelled.

Definition is_blank (c : ascii) : bool :=
  let n := nat_of_ascii c in Nat.eqb n 32 || Nat.eqb n 9 || Nat.eqb n 10 || Nat.eqb n 13.

Section AfterOperand.
  Variable reserved : list string.
  Variable guard : nat.                       (* form of `factorial`, see gen/IdentRules.v *)
  Variable order : list postfix_alt.
  Variable ops : list (oprule * string).

  Definition factorial_rule (s : string) : option string :=
    match lit "!" s with
    | Some r =>
        match guard with
        | 0 => Some r
        | 1 => if fails (lit "=" r) then Some r else None
        | _ => match lit "=" r with
               | Some r2 => if fails (lit "=" r2) then None else Some r
               | None => Some r
               end
        end
    | None => None
    end.
  Definition dot_access_rule (s : string) : option string :=
    match lit "." s with Some r => identifier reserved r | None => None end.

  (* one postfix_op: Some (alternative, rest) *)
  Fixpoint postfix_one (alts : list postfix_alt) (s : string) : option (postfix_alt * string) :=
    match alts with
    | [] => None
    | a :: alts' =>
        match (match a with
               | PFactorial => factorial_rule s
               | PDot => dot_access_rule s
               | PAccess => lit "[" s
               | PCall => lit "(" s
               end) with
        | Some r => Some (a, r)
        | None => postfix_one alts' s
        end
    end.
  Fixpoint infix_sym (l : list (oprule * string)) (s : string) : option (oprule * string) :=
    match l with
    | [] => None
    | (r, w) :: l' => match lit w s with Some rest => Some (r, rest) | None => infix_sym l' s end
    end.

  Fixpoint after_term (fuel : nat) (nf nd : nat) (s : string) : after_operand :=
    match fuel with
    | O => AfterUnmodelled
    | S f =>
        match postfix_one order s with
        | Some (PFactorial, r) => after_term f (S nf) nd r
        | Some (PDot, r) => after_term f nf (S nd) r
        | Some (_, _) => AfterUnmodelled
        | None =>
            match infix_sym ops (star_class is_blank s) with
            | Some (r, rest) => AfterOp nf nd r (star_class is_blank rest)
            | None => AfterNothing nf nd s
            end
        end
    end.
  Definition after_operand_lex (s : string) : after_operand := after_term (S (String.length s)) 0 0 s.
End AfterOperand.

Definition show_after (a : after_operand) : string :=
  match a with
  | AfterOp nf nd r rest =>
      "OP:" ++ String (ascii_of_nat (48 + nf)) (String (ascii_of_nat (48 + nd)) ":") ++
      (match r with
       | R_add => "Add" | R_subtract => "Subtract" | R_multiply => "Multiply" | R_divide => "Divide"
       | R_modulo => "Modulo" | R_power => "Power" | R_equal => "Equal" | R_not_equal => "NotEqual"
       | R_less => "Less" | R_less_eq => "LessEq" | R_greater => "Greater" | R_greater_eq => "GreaterEq"
       | R_dot_equal => "DotEqual" | R_dot_not_equal => "DotNotEqual" | R_dot_less => "DotLess"
       | R_dot_less_eq => "DotLessEq" | R_dot_greater => "DotGreater" | R_dot_greater_eq => "DotGreaterEq"
       | R_and => "And" | R_or => "Or" | R_coalesce => "Coalesce" | _ => "?"
       end) ++ ":" ++ rest
  | AfterNothing nf nd rest => "END:" ++ String (ascii_of_nat (48 + nf)) (String (ascii_of_nat (48 + nd)) ":") ++ rest
  | AfterUnmodelled => "UNMODELLED"
  end.
