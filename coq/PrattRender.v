(* PrattRender.v — definitions only.
   1. spec_table: the precedence table of property C10, written by hand (loosest to tightest).
   2. pr: rendering of a tree as a token stream (item list) with exactly the parentheses a level
      assignment requires, plus any number of redundant parenthesis layers chosen by an oracle
      `par : path -> nat` (path = child indices from the root, innermost first) and the spelling
      of `not` chosen by `wn : path -> bool`.  flat_min = no redundant layer, flat_full = one
      layer around every operand and every nested expression.
   3. items_text: the source text of a token stream (used by the correspondence: the real parser
      is run on exactly this text);  show_expr / show_tres: Gallina twins of harness show.rs
      coq_expr. *)
From Coq Require Import String Ascii List Bool Arith ZArith.
Require Import Blots.Num Blots.gen.Builtins Blots.Ast Blots.Outcome Blots.PrattTypes.
Import ListNotations.
Local Open Scope nat_scope.
Local Open Scope list_scope.

(* ------------------------------------------------------------------ 1. the specification table *)
(* "from loosest to tightest: and/or/&&/||/via/into/where; comparisons (plain and dot-prefixed);
   + -; * / %; ^ (right-associative); ??; prefix - ! not; postfix !; call, index and field access
   - every binary level being left-associative except ^".
   `...` (spread) is not an operator of the property text: the grammar only produces it directly in
   front of a complete expression (spread_expression), so its level cannot be observed; it is listed
   with the prefix operators, which is where the implementation registers it. *)
Definition spec_table : list (affix * list oprule) :=
  [ (Infix ALeft,  [R_natural_and; R_natural_or; R_and; R_or; R_via; R_into; R_where_]);
    (Infix ALeft,  [R_equal; R_not_equal; R_less; R_less_eq; R_greater; R_greater_eq;
                    R_dot_equal; R_dot_not_equal; R_dot_less; R_dot_less_eq; R_dot_greater; R_dot_greater_eq]);
    (Infix ALeft,  [R_add; R_subtract]);
    (Infix ALeft,  [R_multiply; R_divide; R_modulo]);
    (Infix ARight, [R_power]);
    (Infix ALeft,  [R_coalesce]);
    (Prefix,       [R_negation; R_invert; R_natural_not; R_spread_operator]);
    (Postfix,      [R_factorial]);
    (Postfix,      [R_call_list; R_access; R_dot_access]) ].

Fixpoint spec_find (r : oprule) (t : list (affix * list oprule)) (lv : nat) : option (affix * nat) :=
  match t with
  | [] => None
  | (a, rs) :: t' => if existsb (oprule_eqb r) rs then Some (a, lv) else spec_find r t' (S lv)
  end.
(* level 1 = loosest *)
Definition spec_level (r : oprule) : option (affix * nat) := spec_find r spec_table 1.

(* operator token of a constructor (the spelling the constructor stands for) *)
Definition binop_rule (o : binop) : oprule :=
  match o with
  | Add => R_add | Subtract => R_subtract | Multiply => R_multiply | Divide => R_divide
  | Modulo => R_modulo | Power => R_power
  | Equal => R_equal | NotEqual => R_not_equal | Less => R_less | LessEq => R_less_eq
  | Greater => R_greater | GreaterEq => R_greater_eq
  | DotEqual => R_dot_equal | DotNotEqual => R_dot_not_equal | DotLess => R_dot_less
  | DotLessEq => R_dot_less_eq | DotGreater => R_dot_greater | DotGreaterEq => R_dot_greater_eq
  | And => R_and | NaturalAnd => R_natural_and | Or => R_or | NaturalOr => R_natural_or
  | Via => R_via | Into => R_into | Where => R_where_ | Coalesce => R_coalesce
  end.

Definition level_of (f : oprule -> option (affix * nat)) (r : oprule) : nat :=
  match f r with Some (_, n) => n | None => 0 end.
Definition rassoc_of (f : oprule -> option (affix * nat)) (r : oprule) : bool :=
  match f r with Some (Infix ARight, _) => true | _ => false end.

(* ------------------------------------------------------------------ 2. rendering *)
Fixpoint parens (n : nat) (its : list item) : list item :=
  match n with O => its | S n' => [IExpr true (parens n' its)] end.

Section Render.
  Variable bprec : binop -> nat.          (* level of each binary operator *)
  Variable rassoc : binop -> bool.
  Variables Ppre Pfact Ppost : nat.       (* prefix level, postfix `!` level, call/index/field level *)
  Variable par : list nat -> nat.         (* redundant parenthesis layers around the node at a path *)
  Variable wn : list nat -> bool.         (* spell the Not at this path as the word `not` *)

  Definition INF : nat := S (S (Ppre + Pfact + Ppost)).
  Definition lvl (t : expr) : nat :=
    match t with
    | EBin o _ _ => bprec o
    | EUn _ _ | ESpread _ => Ppre
    | EFact _ => Pfact
    | ECall _ _ | EAccess _ _ | EDot _ _ => Ppost
    | _ => INF
    end.
  (* minimal level an operand must have to stand without parentheses *)
  Definition needL (o : binop) : nat := if rassoc o then S (bprec o) else bprec o.
  Definition needR (o : binop) : nat := if rassoc o then bprec o else S (bprec o).
  Definition needPost : nat := S Ppre.    (* operand of a postfix operator: anything tighter than prefix *)

  (* a spread node never gets redundant layers: `(...x)` is not an expression of the grammar *)
  Definition is_spread (c : expr) : bool := match c with ESpread _ => true | _ => false end.
  Definition wrapi (m : nat) (q : list nat) (c : expr) (its : list item) : list item :=
    parens ((if m <=? lvl c then 0 else 1) + (if is_spread c then 0 else par q)) its.

  Definition unop_rule (u : unop) (p : list nat) : oprule :=
    match u with
    | Negate => R_negation
    | Not => if wn p then R_natural_not else R_invert
    | Invert => R_invert                  (* no token produces Invert; excluded by wf *)
    end.

  (* p = path of t.  Children: EBin l=0 r=1; EUn/EFact/EDot/ESpread/ELam/EAssign 0; ECall f=0, args 1..;
     EAccess e=0 index=1; ECond 0 1 2; EList i; EDo stmts i, return = #stmts; ERec key 2i, value 2i+1 *)
  Fixpoint pr (p : list nat) (t : expr) {struct t} : list item :=
    match t with
    | ENum x => [INum x]
    | EStr s => [IStr s]
    | EBool b => [IBool b]
    | ENull => [INull]
    | EId x => [IIdent x]
    | EInRef x => [IInRef x]
    | EBuiltin b => [IIdent (builtin_name b)]
    | EList items =>
        [IList ((fix go (i : nat) (l : list (commented expr)) : list lelem :=
                   match l with
                   | [] => []
                   | Cm _ e _ :: l' => LItem (wrapi 0 (i :: p) e (pr (i :: p) e)) None :: go (S i) l'
                   end) 0 items)]
    | ERec entries =>
        [IRecord ((fix go (i : nat) (l : list (commented rentry)) : list relem :=
                     match l with
                     | [] => []
                     | Cm _ (REntry k v) _ :: l' =>
                         match k with
                         | KStatic s => RPairI (RKStr s) (wrapi 0 (2 * i + 1 :: p) v (pr (2 * i + 1 :: p) v)) None
                         | KDyn e =>
                             RPairI (RKDyn [IExpr false (wrapi 0 (2 * i :: p) e (pr (2 * i :: p) e))])
                                    (wrapi 0 (2 * i + 1 :: p) v (pr (2 * i + 1 :: p) v)) None
                         | KShort s => RShortI s None
                         | KSpread e => RSpreadI (wrapi 0 (2 * i :: p) e (pr (2 * i :: p) e)) None
                         end :: go (S i) l'
                     end) 0 entries)]
    | ELam args body => [ILambda args (wrapi 0 (0 :: p) body (pr (0 :: p) body))]
    | ECond c t1 e =>
        [ICond (wrapi 0 (0 :: p) c (pr (0 :: p) c)) (wrapi 0 (1 :: p) t1 (pr (1 :: p) t1))
               (wrapi 0 (2 :: p) e (pr (2 :: p) e))]
    | EDo stmts (Cm _ ret _) =>
        [IDo ((fix go (i : nat) (l : list (commented expr)) : list delem :=
                 match l with
                 | [] => [DRet (wrapi 0 (i :: p) ret (pr (i :: p) ret))]
                 | Cm _ e _ :: l' => DStmt (wrapi 0 (i :: p) e (pr (i :: p) e)) None :: go (S i) l'
                 end) 0 stmts)]
    | EAssign x v => [IAssign x (wrapi 0 (0 :: p) v (pr (0 :: p) v))]
    | EOutput _ => []                     (* not an expression; excluded by wf *)
    | ECall f args =>
        wrapi needPost (0 :: p) f (pr (0 :: p) f) ++
        [ICall ((fix go (i : nat) (l : list expr) : list (list item) :=
                   match l with
                   | [] => []
                   | a :: l' => wrapi 0 (i :: p) a (pr (i :: p) a) :: go (S i) l'
                   end) 1 args)]
    | EAccess e i =>
        wrapi needPost (0 :: p) e (pr (0 :: p) e) ++
        [IAccess [IExpr false (wrapi 0 (1 :: p) i (pr (1 :: p) i))]]
    | EDot e f => wrapi needPost (0 :: p) e (pr (0 :: p) e) ++ [IDot f]
    | EBin o l r =>
        wrapi (needL o) (0 :: p) l (pr (0 :: p) l) ++
        IOp (binop_rule o) :: wrapi (needR o) (1 :: p) r (pr (1 :: p) r)
    | EUn u e => IOp (unop_rule u p) :: wrapi Ppre (0 :: p) e (pr (0 :: p) e)
    | EFact e => wrapi needPost (0 :: p) e (pr (0 :: p) e) ++ [IOp R_factorial]
    | ESpread e => [IOp R_spread_operator; IExpr false (wrapi 0 (0 :: p) e (pr (0 :: p) e))]
    end.

  (* a whole expression: the root may carry redundant layers too *)
  Definition render (t : expr) : list item := wrapi 0 [] t (pr [] t).
End Render.

(* renderings under the specification table.  Only the ORDER of the levels matters to `pr` (every
   decision is a comparison of two levels); the levels are numbered n |-> 10 n + 10 (pest's
   PREC_STEP numbering of the same table) so that the statement of the round trip needs no
   renumbering lemma. *)
Definition pest_scale (n : nat) : nat := 10 * n + 10.
Definition spec_bprec (o : binop) : nat := pest_scale (level_of spec_level (binop_rule o)).
Definition spec_rassoc (o : binop) : bool := rassoc_of spec_level (binop_rule o).
Definition spec_Ppre : nat := pest_scale (level_of spec_level R_negation).
Definition spec_Pfact : nat := pest_scale (level_of spec_level R_factorial).
Definition spec_Ppost : nat := pest_scale (level_of spec_level R_call_list).

Definition spec_render := render spec_bprec spec_rassoc spec_Ppre spec_Pfact spec_Ppost.
(* minimally parenthesised: no redundant layer; symbol spelling of `not` *)
Definition flat_min (t : expr) : list item := spec_render (fun _ => 0) (fun _ => false) t.
(* fully parenthesised: one layer around every operand, nested expression and the whole *)
Definition flat_full (t : expr) : list item := spec_render (fun _ => 1) (fun _ => false) t.

(* oracles given as finite maps (what the check driver sends) *)
Fixpoint path_eqb (a b : list nat) : bool :=
  match a, b with
  | [], [] => true
  | x :: a', y :: b' => Nat.eqb x y && path_eqb a' b'
  | _, _ => false
  end.
Fixpoint par_of (m : list (list nat * nat)) (dflt : nat) (p : list nat) : nat :=
  match m with [] => dflt | (q, n) :: m' => if path_eqb q p then n else par_of m' dflt p end.
Definition wn_of (m : list (list nat)) (p : list nat) : bool := existsb (path_eqb p) m.

(* ------------------------------------------------------------------ 3. text *)
Local Open Scope string_scope.

Fixpoint sjoin (sep : string) (l : list string) : string :=
  match l with [] => "" | [x] => x | x :: r => x ++ sep ++ sjoin sep r end.
Definition sconcat (l : list string) : string := fold_right append "" l.

Fixpoint dec_digits (fuel : nat) (z : Z) (acc : string) : string :=
  match fuel with
  | O => acc
  | S f =>
      let d := String (ascii_of_nat (48 + Z.to_nat (z mod 10))) acc in
      if (z <? 10)%Z then d else dec_digits f (z / 10)%Z d
  end.
(* decimal text of a non-negative integral number below 10^15; "0" otherwise (the generators only
   use such literals: number text is property C16's subject) *)
Definition num_text (x : num) : string :=
  match Z_of_num_trunc x with
  | Some z => if nfract_is_zero x && (0 <=? z)%Z && (z <? 10 ^ 15)%Z then dec_digits 20 z "" else "0"
  | None => "0"
  end.

Definition op_text (r : oprule) : string :=
  match r with
  | R_add => " + " | R_subtract => " - " | R_multiply => " * " | R_divide => " / "
  | R_modulo => " % " | R_power => " ^ "
  | R_equal => " == " | R_not_equal => " != " | R_less => " < " | R_less_eq => " <= "
  | R_greater => " > " | R_greater_eq => " >= "
  | R_dot_equal => " .== " | R_dot_not_equal => " .!= " | R_dot_less => " .< "
  | R_dot_less_eq => " .<= " | R_dot_greater => " .> " | R_dot_greater_eq => " .>= "
  | R_and => " && " | R_natural_and => " and " | R_or => " || " | R_natural_or => " or "
  | R_via => " via " | R_into => " into " | R_where_ => " where " | R_coalesce => " ?? "
  | R_negation => "-" | R_spread_operator => "..." | R_invert => "!" | R_natural_not => "not "
  | R_factorial => "!" | R_access => "[]" | R_dot_access => "." | R_call_list => "()"
  end.

Definition arg_text (a : lamarg) : string :=
  match a with AReq x => x | AOpt x => x ++ "?" | ARest x => "..." ++ x end.
Definition nl : string := String (ascii_of_nat 10) "".
Definition dq : string := String (ascii_of_nat 34) "".
Definition ocom (c : option string) (pre : string) : string :=
  match c with Some s => pre ++ s | None => "" end.

Fixpoint item_text (i : item) : string :=
  let seq := fix seq (l : list item) : string :=
    match l with [] => "" | x :: r => item_text x ++ seq r end in
  match i with
  | INum x => num_text x
  | IBadNum => "0x8000000000000000"
  | IStr s => dq ++ s ++ dq
  | IBool true => "true"
  | IBool false => "false"
  | INull => "null"
  | IIdent s => s
  | IInRef s => "#" ++ s
  | IExpr true g => "(" ++ seq g ++ ")"
  | IExpr false g => seq g
  | IList els =>
      (* the comma follows its item directly (only blanks may stand between an item and its comma);
         comment lines come after the comma; an end-of-line comment closes the line *)
      "[" ++ (fix go (l : list lelem) : string :=
                match l with
                | [] => ""
                | LCom s :: r => nl ++ s ++ nl ++ go r
                | LItem g eol :: r =>
                    seq g ++
                    (if (fix more (l : list lelem) : bool :=
                           match l with [] => false | LCom _ :: r' => more r' | LItem _ _ :: _ => true end) r
                     then ", " else "") ++
                    match eol with Some c => " " ++ c ++ nl | None => "" end ++ go r
                end) els ++ "]"
  | IRecord els =>
      "{" ++ (fix go (l : list relem) : string :=
                match l with
                | [] => ""
                | RCom s :: r => nl ++ s ++ nl ++ go r
                | x :: r =>
                    match x with
                    | RPairI k v _ =>
                        match k with
                        | RKId s => s
                        | RKStr s => dq ++ s ++ dq
                        | RKDyn inner => "[" ++ seq inner ++ "]"
                        end ++ ": " ++ seq v
                    | RShortI s _ => s
                    | RSpreadI g _ => seq g
                    | RCom _ => ""
                    end ++
                    (if (fix more (l : list relem) : bool :=
                           match l with [] => false | RCom _ :: r' => more r' | _ :: _ => true end) r
                     then ", " else "") ++
                    match x with
                    | RPairI _ _ (Some c) | RShortI _ (Some c) | RSpreadI _ (Some c) => " " ++ c ++ nl
                    | _ => ""
                    end ++ go r
                end) els ++ "}"
  | ILambda args body => "(" ++ sjoin ", " (map arg_text args) ++ ") => " ++ seq body
  | ICond c t e => "if " ++ seq c ++ " then " ++ seq t ++ " else " ++ seq e
  | IDo els =>
      "do {" ++ nl ++
      (fix go (l : list delem) : string :=
         match l with
         | [] => ""
         | DStmt g c :: r => "  " ++ seq g ++ ocom c "" ++ nl ++ go r
         | DComStmt s _ :: r => "  " ++ s ++ nl ++ go r
         | DCom s :: r => "  " ++ s ++ nl ++ go r
         | DRet g :: r => "  return " ++ seq g ++ nl ++ go r
         end) els ++ "}"
  | IAssign x v => x ++ " = " ++ seq v
  | IOp r => op_text r
  | IAccess inner => "[" ++ seq inner ++ "]"
  | IDot f => "." ++ f
  | ICall args =>
      "(" ++ (fix go (first : bool) (l : list (list item)) : string :=
                match l with
                | [] => ""
                | g :: r => (if first then "" else ", ") ++ seq g ++ go false r
                end) true args ++ ")"
  end.
Definition items_text (l : list item) : string := sconcat (map item_text l).

(* ---- show_expr: exactly harness/src/show.rs::coq_expr ---- *)
Definition cs (s : string) : string := "(hx " ++ dq ++ hex_of_string s ++ dq ++ ")".
Definition coq_list (l : list string) : string := "[" ++ sjoin "; " l ++ "]".
Definition show_binop (o : binop) : string :=
  match o with
  | Add => "Add" | Subtract => "Subtract" | Multiply => "Multiply" | Divide => "Divide"
  | Modulo => "Modulo" | Power => "Power" | Equal => "Equal" | NotEqual => "NotEqual"
  | Less => "Less" | LessEq => "LessEq" | Greater => "Greater" | GreaterEq => "GreaterEq"
  | DotEqual => "DotEqual" | DotNotEqual => "DotNotEqual" | DotLess => "DotLess"
  | DotLessEq => "DotLessEq" | DotGreater => "DotGreater" | DotGreaterEq => "DotGreaterEq"
  | And => "And" | NaturalAnd => "NaturalAnd" | Or => "Or" | NaturalOr => "NaturalOr"
  | Via => "Via" | Into => "Into" | Where => "Where" | Coalesce => "Coalesce"
  end.
Definition show_unop (u : unop) : string :=
  match u with Negate => "Negate" | Not => "Not" | Invert => "Invert" end.
Definition show_lamarg (a : lamarg) : string :=
  match a with
  | AReq x => "(AReq " ++ cs x ++ ")" | AOpt x => "(AOpt " ++ cs x ++ ")" | ARest x => "(ARest " ++ cs x ++ ")"
  end.
Definition show_cm (lead : list string) (node : string) (trail : option string) : string :=
  "(Cm " ++ coq_list (map cs lead) ++ " " ++ node ++ " " ++
  match trail with Some t => "(Some " ++ cs t ++ ")" | None => "None" end ++ ")".

Fixpoint show_expr (e : expr) : string :=
  match e with
  | ENum x => "(ENum (nb 0x" ++ show_num x ++ "))"
  | EStr s => "(EStr " ++ cs s ++ ")"
  | EBool true => "(EBool true)"
  | EBool false => "(EBool false)"
  | ENull => "ENull"
  | EId x => "(EId " ++ cs x ++ ")"
  | EInRef x => "(EInRef " ++ cs x ++ ")"
  | EBuiltin b => "(EBuiltin B_" ++ builtin_name b ++ ")"
  | EList items =>
      "(EList " ++ coq_list ((fix go (l : list (commented expr)) : list string :=
                               match l with
                               | [] => []
                               | Cm a n t :: l' => show_cm a (show_expr n) t :: go l'
                               end) items) ++ ")"
  | ERec entries =>
      "(ERec " ++ coq_list ((fix go (l : list (commented rentry)) : list string :=
                              match l with
                              | [] => []
                              | Cm a (REntry k v) t :: l' =>
                                  show_cm a ("(REntry " ++
                                             match k with
                                             | KStatic s => "(KStatic " ++ cs s ++ ")"
                                             | KDyn x => "(KDyn " ++ show_expr x ++ ")"
                                             | KShort s => "(KShort " ++ cs s ++ ")"
                                             | KSpread x => "(KSpread " ++ show_expr x ++ ")"
                                             end ++ " " ++ show_expr v ++ ")") t :: go l'
                              end) entries) ++ ")"
  | ELam args body => "(ELam " ++ coq_list (map show_lamarg args) ++ " " ++ show_expr body ++ ")"
  | ECond c t e' => "(ECond " ++ show_expr c ++ " " ++ show_expr t ++ " " ++ show_expr e' ++ ")"
  | EDo stmts (Cm ra r rt) =>
      "(EDo " ++ coq_list ((fix go (l : list (commented expr)) : list string :=
                             match l with
                             | [] => []
                             | Cm a n t :: l' => show_cm a (show_expr n) t :: go l'
                             end) stmts) ++ " " ++ show_cm ra (show_expr r) rt ++ ")"
  | EAssign x v => "(EAssign " ++ cs x ++ " " ++ show_expr v ++ ")"
  | EOutput x => "(EOutput " ++ show_expr x ++ ")"
  | ECall f args =>
      "(ECall " ++ show_expr f ++ " " ++
      coq_list ((fix go (l : list expr) : list string :=
                   match l with [] => [] | a :: l' => show_expr a :: go l' end) args) ++ ")"
  | EAccess x i => "(EAccess " ++ show_expr x ++ " " ++ show_expr i ++ ")"
  | EDot x f => "(EDot " ++ show_expr x ++ " " ++ cs f ++ ")"
  | EBin o l r => "(EBin " ++ show_binop o ++ " " ++ show_expr l ++ " " ++ show_expr r ++ ")"
  | EUn u x => "(EUn " ++ show_unop u ++ " " ++ show_expr x ++ ")"
  | EFact x => "(EFact " ++ show_expr x ++ ")"
  | ESpread x => "(ESpread " ++ show_expr x ++ ")"
  end.

(* what harness `parse10` prints for a single expression statement *)
Definition show_tres (r : outcome (option expr)) : string :=
  match r with
  | Ok (Some e) => "E " ++ show_expr e
  | Ok None => "GLUEERR"
  | Panic => "PANIC"
  | Unmodelled => "OUTOFFUEL"
  | _ => "?"
  end.
