(* EmitNq.v — C05, NaN / both-quote captured data (definitions only).

   Emit.value_to_ast writes a captured NaN as `(0/0)` (nanfix) and a captured string / record key
   holding BOTH quote characters as a `+` chain of string literals (a computed key for keys).
   These literals are operator expressions: relating them to the value needs the two facts about
   the operators stated in [binop_lit_ok]; everything else about the operators stays generic. *)
From Coq Require Import String Ascii List ZArith Bool Floats.SpecFloat.
Require Import Blots.Num Blots.gen.Builtins Blots.Ast Blots.Value Blots.Outcome Blots.Env
               Blots.Eval Blots.Emit.
Import ListNotations.
Open Scope list_scope.
Open Scope string_scope.

(* what the literals of NaN and of both-quote strings need from the operator implementation:
   f64 `0.0 / 0.0` is NaN (the model's [num] has ONE NaN: payload and sign of a NaN are not
   represented because nothing in blots-core observes them — Display prints `NaN`, equals /
   compare go through f64 comparison, to_json writes null, there is no sign / copysign / bits
   built-in), and `+` on two strings is concatenation; neither calls back nor touches the store *)
Definition binop_lit_ok
  (binop_impl : callback -> binop -> value -> value -> store -> outcome value * store) : Prop :=
  (forall cb st, binop_impl cb Divide (VNum nzero) (VNum nzero) st = (Ok (VNum nnan), st)) /\
  (forall cb a b st, binop_impl cb Add (VStr a) (VStr b) st = (Ok (VStr (a ++ b)), st)).

(* the captured data covered: first-order (data + built-ins, unique record keys); NaN at any depth
   when the NaN literal is the repaired one; strings and keys with both quote kinds at any depth *)
Definition emittable_nq (nanfix : bool) (v : value) : bool :=
  fo v && (nanfix || negb (has_nan v)).

(* the string denoted by the chain  (acc + DQ + p1 + DQ + p2 ...), DQ the one-character string holding a double quote *)
Definition chain_str (a : string) (l : list string) : string :=
  fold_left (fun a p => (a ++ String dq "") ++ p) l a.
