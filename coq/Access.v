(* Access.v — indexing, field access and spreading, transcribed from
   blots-core/src/expressions.rs (Expr::Access / DotAccess / Spread arms of evaluate_ast,
   flatten_spread_value, the spread flattening of list literals and call arguments, the
   RecordKey::Spread arm of record literals).  Definitions only.

   Strings are Coq [string] = the UTF-8 bytes of the Rust String.  [chars] cuts a byte
   string into code points by looking at leading bytes only (0xxxxxxx 1 byte, 110xxxxx 2,
   1110xxxx 3, 11110xxx 4), which is what str::chars() yields on valid UTF-8 (Rust strings
   are always valid UTF-8; the generators only produce valid text). *)
From Coq Require Import String Ascii List ZArith Bool DecimalString.
Require Import Blots.Num Blots.gen.Builtins Blots.Ast Blots.Value Blots.Outcome.
Import ListNotations.
Open Scope list_scope.
Open Scope Z_scope.

(* ---------- UTF-8 ---------- *)
Definition byte_of (c : ascii) : Z := Z.of_nat (nat_of_ascii c).

(* number of bytes of the code point that starts with leading byte c (1 for a stray
   continuation byte, which cannot start a character of a valid string) *)
Definition utf8_width (c : ascii) : nat :=
  let b := byte_of c in
  if b <? 0xC0 then 1%nat else if b <? 0xE0 then 2%nat else if b <? 0xF0 then 3%nat else 4%nat.

(* UTF-8 continuation byte 10xxxxxx; Rust's is_char_boundary(i) is "byte i is not one" *)
Definition is_cont (c : ascii) : bool := let b := byte_of c in (0x80 <=? b) && (b <? 0xC0).

(* [owed] = bytes the current character [cur] still lacks *)
Fixpoint chars_acc (s : string) (owed : nat) (cur : string) : list string :=
  match s with
  | EmptyString => match cur with EmptyString => [] | _ => [cur] end
  | String c r =>
      match owed with
      | O => match cur with EmptyString => [] | _ => [cur] end
               ++ chars_acc r (utf8_width c - 1) (String c EmptyString)
      | S n => chars_acc r n (cur ++ String c EmptyString)
      end
  end.

(* str::chars(), each char as a one-character string (c.to_string()) *)
Definition chars (s : string) : list string := chars_acc s 0 EmptyString.

Definition is_ascii_str (s : string) : bool :=
  forallb (fun c => byte_of c <? 0x80) (list_ascii_of_string s).

(* ---------- Vec / slice indexing with a Z index ---------- *)
(* slice.get(i) for an index that was produced by `as usize` / is known non-negative *)
Definition list_get {A} (l : list A) (i : Z) : option A :=
  if (i <? 0) || (Z.of_nat (length l) <=? i) then None else nth_error l (Z.to_nat i).

(* the index arithmetic shared by the List and String arms of Expr::Access:
     let raw_index = idx as i64;
     let index = if raw_index < 0 { let adjusted = len as i64 + raw_index;
                                    if adjusted < 0 { return Ok(Null) }  adjusted as usize }
                 else { raw_index as usize };
     items.get(index).unwrap_or(Null)                                             *)
Definition index_get {A} (items : list A) (x : num) : option A :=
  let raw_index := as_i64 x in
  if raw_index <? 0 then
    let adjusted := Z.of_nat (length items) + raw_index in
    if adjusted <? 0 then None else list_get items adjusted
  else list_get items raw_index.

(* ---------- Expr::Access, after both operands are evaluated ---------- *)
Definition access_value (v idx : value) : outcome value :=
  match v with
  | VRec r =>
      match idx with                                   (* idx_val.as_string(heap)? *)
      | VStr key => Ok (match rec_get r key with Some x => x | None => VNull end)
      | _ => Err
      end
  | VList l =>
      match idx with                                   (* idx_val.as_number()? as i64 *)
      | VNum x => Ok (match index_get l x with Some e => e | None => VNull end)
      | _ => Err
      end
  | VStr s =>
      match idx with
      | VNum x => Ok (match index_get (chars s) x with Some c => VStr c | None => VNull end)
      | _ => Err
      end
  | _ => Err                       (* "expected a record, list, or string" *)
  end.

(* ---------- Expr::DotAccess ---------- *)
Definition dot_access (v : value) (field : string) : outcome value :=
  match v with
  | VRec r => Ok (match rec_get r field with Some x => x | None => VNull end)
  | _ => Err                       (* "expected a record" *)
  end.

(* ---------- Expr::Spread ---------- *)
Definition spread_of (v : value) : outcome value :=
  match v with
  | VList _ | VStr _ | VRec _ => Ok (VSpread v)
  | _ => Err                       (* "expected a list, record, or string" *)
  end.

(* ---------- flatten_spread_value: the argument is the payload of a Spread ---------- *)
(* IterablePointer has exactly the three variants List / String / Record, so a VSpread of
   anything else is not a value the Rust type can hold: Unmodelled (never produced by
   spread_of). *)
Definition flatten_spread_value (v : value) : outcome (list value) :=
  match v with
  | VList l => Ok l
  | VStr s => Ok (map VStr (chars s))
  | VRec r => Ok (map (fun kv => VList [VStr (fst kv); snd kv]) r)
  | _ => Unmodelled
  end.

(* the loop shared by Expr::List and Expr::Call:
     for value in values { match value { Spread(p) => flattened.extend(flatten_spread_value(p)?),
                                         _ => flattened.push(value) } }                  *)
Fixpoint flatten_spreads (vs : list value) : outcome (list value) :=
  match vs with
  | [] => Ok []
  | VSpread p :: rest =>
      do xs <- flatten_spread_value p;
      do ys <- flatten_spreads rest;
      Ok (xs ++ ys)
  | v :: rest =>
      do ys <- flatten_spreads rest;
      Ok (v :: ys)
  end.

(* ---------- RecordKey::Spread arm of Expr::Record ---------- *)
(* usize::to_string *)
Definition dec_of_nat (n : nat) : string := NilEmpty.string_of_uint (Nat.to_uint n).

(* record.insert(i.to_string(), item) for (i, item) in items.enumerate(), starting at i *)
Fixpoint insert_indexed (record : list (string * value)) (i : nat) (items : list value)
  : list (string * value) :=
  match items with
  | [] => record
  | x :: rest => insert_indexed (rec_insert record (dec_of_nat i) x) (S i) rest
  end.

Fixpoint insert_all (record : list (string * value)) (entries : list (string * value))
  : list (string * value) :=
  match entries with
  | [] => record
  | (k, x) :: rest => insert_all (rec_insert record k x) rest
  end.

(* `if let Spread(iterable) = spread_value { … }` — any other value leaves the record as it
   is (the parser only builds RecordKey::Spread around an Expr::Spread, whose value is a
   Spread or an error, so that branch is not reachable from source text). *)
Definition record_spread_insert (record : list (string * value)) (spread_value : value)
  : outcome (list (string * value)) :=
  match spread_value with
  | VSpread (VList l) => Ok (insert_indexed record 0 l)
  | VSpread (VStr s) => Ok (insert_indexed record 0 (map VStr (chars s)))
  | VSpread (VRec r) => Ok (insert_all record r)
  | VSpread _ => Unmodelled
  | _ => Ok record
  end.

(* ---------- literals whose items are already evaluated ---------- *)
(* Expr::List: evaluate every item (left to right), then flatten the spreads *)
Definition list_literal (items : list value) : outcome value :=
  do l <- flatten_spreads items; Ok (VList l).

(* one evaluated record-literal entry: key/value pair (Static, Dynamic with the key already
   checked to be a string, Shorthand) or the value of a spread entry *)
Inductive rec_item := RIPair (k : string) (v : value) | RISpread (v : value).

Fixpoint record_literal_from (record : list (string * value)) (items : list rec_item)
  : outcome (list (string * value)) :=
  match items with
  | [] => Ok record
  | RIPair k v :: rest => record_literal_from (rec_insert record k v) rest
  | RISpread sv :: rest =>
      do record' <- record_spread_insert record sv;
      record_literal_from record' rest
  end.
Definition record_literal (items : list rec_item) : outcome value :=
  do r <- record_literal_from [] items; Ok (VRec r).
