(* Valid.v — the VALIDITY INVARIANT on numbers (C01, extension C01V).  Definitions only.

   Num.num = SpecFloat.spec_float has inhabitants that no f64 corresponds to: S754_finite s m e with a
   mantissa of more than 53 bits, an exponent outside [-1074, 971] or a mantissa that is not normalised
   for its exponent.  The side conditions of the per-call theorem C01_builtin_call_no_panic_all
   (percentile: p is a genuine double; format: the display of a number does not overflow its i32 / i64
   arithmetic) hold for genuine doubles only, so an evaluator-level "never Panic" for the complete
   built-in set needs "every number the evaluator ever holds is a genuine double" as an invariant:

     valid_num x       SpecFloat.valid_binary 53 1024 x = true (the predicate C15 / C16 / C20 / C06 already use:
                       JsonWf.is_double, AggPercentile.valid, DisplayNumFloat.valid are the same term)
     valid_expr e      every number literal of e is valid — true of everything the parser produces: a number
                       token is converted by NumText.rn_decimal / the radix conversion (C16:
                       C16_decimal_literal_value, C16_hex_literal_value_fixed: the value is Flocq's correctly
                       rounded binary_round / binary_normalize of an exact rational, which is valid:
                       AllValidNum.rn_decimal_valid, num_of_Z_valid), PegToItems / Pratt only move it
     valid_value v     hereditary: numbers, list elements, record fields, the spread value, and for a
                       closure the literals of its body and its captured values
     valid_cfg c       every value bound in every frame (the store holds names only)
     oracle_valid o    every number-valued oracle function returns a valid number on valid arguments

   Each predicate is a Gallina boolean (so the ALL stream can run it by vm_compute on every value the
   model computes) with the Prop `= true` next to it. *)
From Coq Require Import String Ascii List ZArith Bool Floats.SpecFloat.
Require Import Blots.Num Blots.gen.Builtins Blots.Ast Blots.Value Blots.Outcome Blots.Binop Blots.Env
               Blots.Eval Blots.Program Blots.EvalFull Blots.EvalAll Blots.BuiltinsAgg.
Import ListNotations.
Open Scope list_scope.

Definition valid_numb (x : num) : bool := valid_binary prec emax x.
Definition valid_num (x : num) : Prop := valid_numb x = true.

(* ---- expressions: every number literal ---- *)
Fixpoint valid_exprb (e : expr) {struct e} : bool :=
  match e with
  | ENum x => valid_numb x
  | EStr _ | EBool _ | ENull | EId _ | EInRef _ | EBuiltin _ => true
  | EList items =>
      (fix go (l : list (commented expr)) : bool :=
         match l with [] => true | Cm _ a _ :: r => valid_exprb a && go r end) items
  | ERec entries =>
      (fix go (l : list (commented rentry)) : bool :=
         match l with
         | [] => true
         | Cm _ (REntry k v) _ :: r =>
             (match k with KDyn a | KSpread a => valid_exprb a | KStatic _ | KShort _ => true end)
             && valid_exprb v && go r
         end) entries
  | ELam _ body => valid_exprb body
  | ECond c t f => valid_exprb c && valid_exprb t && valid_exprb f
  | EDo stmts (Cm _ ret _) =>
      (fix go (l : list (commented expr)) : bool :=
         match l with [] => true | Cm _ a _ :: r => valid_exprb a && go r end) stmts
      && valid_exprb ret
  | EAssign _ v => valid_exprb v
  | EOutput a => valid_exprb a
  | ECall f args =>
      valid_exprb f &&
      (fix go (l : list expr) : bool :=
         match l with [] => true | a :: r => valid_exprb a && go r end) args
  | EAccess a i => valid_exprb a && valid_exprb i
  | EDot a _ => valid_exprb a
  | EBin _ l r => valid_exprb l && valid_exprb r
  | EUn _ a | EFact a | ESpread a => valid_exprb a
  end.
Definition valid_expr (e : expr) : Prop := valid_exprb e = true.

(* ---- values, hereditarily ---- *)
Fixpoint valid_valueb (v : value) {struct v} : bool :=
  match v with
  | VNum x => valid_numb x
  | VBool _ | VNull | VStr _ | VBuiltin _ => true
  | VList l => forallb valid_valueb l
  | VRec r => forallb (fun kv => valid_valueb (snd kv)) r
  | VLam _ _ body scope => valid_exprb body && forallb (fun kv => valid_valueb (snd kv)) scope
  | VSpread w => valid_valueb w
  end.
Definition valid_value (v : value) : Prop := valid_valueb v = true.
Definition valid_valuesb (l : list value) : bool := forallb valid_valueb l.
Definition valid_values (l : list value) : Prop := valid_valuesb l = true.

(* ---- frames, configurations, programs ---- *)
Definition valid_frameb (f : frame) : bool := forallb (fun kv => valid_valueb (snd kv)) f.
Definition valid_framesb (fr : frames) : bool := forallb (fun kf => valid_frameb (snd kf)) fr.
Definition valid_frames (fr : frames) : Prop := valid_framesb fr = true.
Definition valid_cfgb (c : cfg) : bool := valid_framesb (snd c).
Definition valid_cfg (c : cfg) : Prop := valid_cfgb c = true.

Definition valid_stmtb (t : stmt) : bool :=
  match t with SExpr e | SOut e => valid_exprb e | SComment => true end.
Definition valid_progb (p : list stmt) : bool := forallb valid_stmtb p.
Definition valid_prog (p : list stmt) : Prop := valid_progb p = true.
Definition valid_inputs (inputs : list (string * value)) : Prop := valid_frameb inputs = true.

(* the text of one statement result, with the validity of its value: what the ALL stream evaluates *)
Definition valid_resultb (r : stmt_result) : bool :=
  match r with ROk v => valid_valueb v | _ => true end.

(* ---- the oracle: number in, number out ---- *)
Record oracle_valid (o : oracle) : Prop := {
  ov_sin : forall x, valid_num x -> valid_num (o_sin o x);
  ov_cos : forall x, valid_num x -> valid_num (o_cos o x);
  ov_tan : forall x, valid_num x -> valid_num (o_tan o x);
  ov_asin : forall x, valid_num x -> valid_num (o_asin o x);
  ov_acos : forall x, valid_num x -> valid_num (o_acos o x);
  ov_atan : forall x, valid_num x -> valid_num (o_atan o x);
  ov_ln : forall x, valid_num x -> valid_num (o_ln o x);
  ov_log10 : forall x, valid_num x -> valid_num (o_log10 o x);
  ov_exp : forall x, valid_num x -> valid_num (o_exp o x);
  ov_powf : forall x y, valid_num x -> valid_num y -> valid_num (o_powf o x y);
  ov_now : valid_num (o_now o)
}.

(* the one library condition `format` needs: displaying a genuine double does not overflow the i32 / i64
   arithmetic of format_display_number.  Sufficient conditions (proofs/AllValid.v):
     - log10_in_range o (AllNoPanic.v), for ANY display library;
     - C20's log10_sane_pos (o_log10 o) when the four std functions under the display are C20's executable
       models (which C20 proves meet their specifications): display_safe_of_log10_sane_pos. *)
Definition oracle_display_safe (o : oracle) : Prop :=
  forall x, valid_num x -> display_text o x <> Panic.

(* ---- percentile's other side condition: a list of more than 2^53 elements ----
   `(len - 1) as f64` is exact up to 2^53 and may round UP beyond it, so the nearest-rank index can leave
   the list (AggPanics.args_ok; the bound is what C15's proof needs).  No resource bound of the MODEL rules
   such a list out (values are trees without a memory limit), so the evaluator-level theorems are stated
   for the dispatcher below, which differs from builtin_all o in exactly one point — percentile of a list
   of more than 2^53 elements (at 16 bytes per Value: 144 PB) is an error instead of whatever the arm
   does — and C01_percentile_guard_is_the_only_difference says so.  THIS IS A HYPOTHESIS ON LIST LENGTHS,
   not something proved. *)
Definition percentile_fits (args : list value) : bool :=
  match args with
  | [VList vs; VNum _] => (Z.of_nat (Datatypes.length vs) <=? 2 ^ 53)%Z
  | _ => true
  end.
Definition builtin_all_fit (o : oracle) (call : callback) (b : builtin)
  : list value -> store -> outcome value * store :=
  fun args st =>
    match b with
    | B_percentile => if percentile_fits args then builtin_all o call b args st else (Err, st)
    | _ => builtin_all o call b args st
    end.
