(* BuiltinsAgg.v — the aggregate built-ins of blots-core/src/functions.rs, arm by arm of
   BuiltInFunction::call:   min max avg sum prod median percentile  (+ any all dot).
   Definitions only.  Every `bi_<name> (args : list value) : outcome value` is the transcription
   of `Self::<Name> => { ... }` applied to the argument vector AFTER the evaluator has flattened
   spread arguments and BEFORE/WITHOUT the arity check (FunctionDef::check_arity is the caller's
   business: `checked_call` below adds it).  Every partial Rust operation is an explicit Panic:
   `args[i]` beyond the length, `partial_cmp(..).unwrap()` on a NaN inside the sort comparator,
   `nums.len() - 1` on an empty vector, `nums[index]` out of range.
   State of the source: /repo at or after commit 710ac9a ("fix: median and percentile no longer
   panic on NaN or on an empty list", the repair proposed by this property's first check run).

   Rust facts used (pinned by the C15 correspondence stream on every run):
     * `iter().sum::<f64>()` folds from -0.0, `iter().product::<f64>()` from 1.0
       (core::iter::traits::accum, float_sum_product!);
     * `f64::min/max` ignore a NaN operand (Num.nmin / Num.nmax);
     * `slice::sort_by` is stable; it calls the comparator at least once on every element as soon
       as the slice has two or more elements, and never for length 0 or 1;
     * `x as usize` saturates and maps NaN to 0 (Num.as_usize);
     * `(0.0..=100.0).contains(&p)` is `0.0 <= p && p <= 100.0` (false for NaN). *)
From Coq Require Import ZArith String List Bool Floats.SpecFloat.
Require Import Blots.Num Blots.gen.Builtins Blots.Ast Blots.Value Blots.Show Blots.Outcome.
Import ListNotations.
Open Scope Z_scope.

(* ---------- Value::as_number / as_list / as_bool (values.rs) ---------- *)
Definition as_number (v : value) : outcome num :=
  match v with VNum x => Ok x | _ => Err end.
Definition as_list (v : value) : outcome (list value) :=
  match v with VList l => Ok l | _ => Err end.
Definition as_bool (v : value) : outcome bool :=
  match v with VBool b => Ok b | _ => Err end.

(* `args[i]` on a Vec<Value> *)
Definition arg (args : list value) (i : nat) : outcome value :=
  match nth_error args i with Some v => Ok v | None => Panic end.
Definition len {A} (l : list A) : Z := Z.of_nat (length l).
(* `nums[i]` with a usize index held in Z: the bounds check, then the element.  (The check comes
   first so that a saturated index near 2^64 is never converted to a unary nat.) *)
Definition index_num (nums : list num) (i : Z) : outcome num :=
  if (i <? 0) || (len nums <=? i) then Panic
  else match nth_error nums (Z.to_nat i) with Some x => Ok x | None => Panic end.
Definition is_empty {A} (l : list A) : bool := match l with [] => true | _ => false end.

(* constants appearing in the source *)
Definition n0 : num := nzero.                 (* 0.0 *)
Definition n1 : num := num_of_Z 1.            (* 1.0 *)
Definition n2 : num := num_of_Z 2.            (* 2.0 *)
Definition n100 : num := num_of_Z 100.        (* 100.0 *)

(* ---------- the six argument-collection copies ----------
     let nums = if args.len() == 1 {
         match &args[0] {
             Value::List(_) => { list.iter().map(|a| a.as_number()).collect::<Result<Vec<f64>>>()? }
             _ => vec![args[0].as_number()?],
         }
     } else {
         args.iter().map(|a| a.as_number()).collect::<Result<Vec<f64>>>()?
     };
   One definition per copy, as in the source (functions.rs 424-440, 452-468, 480-495, 503-518,
   562-577, 586-601); Aggregates.collect_copies_agree proves they are the same function. *)
Definition collect_nums_min (args : list value) : outcome (list num) :=
  if Nat.eqb (length args) 1 then
    do a0 <- arg args 0;
    match a0 with
    | VList l => mapM as_number l
    | _ => do x <- as_number a0; Ok [x]
    end
  else mapM as_number args.

Definition collect_nums_max (args : list value) : outcome (list num) :=
  if Nat.eqb (length args) 1 then
    do a0 <- arg args 0;
    match a0 with
    | VList l => mapM as_number l
    | _ => do x <- as_number a0; Ok [x]
    end
  else mapM as_number args.

Definition collect_nums_avg (args : list value) : outcome (list num) :=
  if Nat.eqb (length args) 1 then
    do a0 <- arg args 0;
    match a0 with
    | VList l => mapM as_number l
    | _ => do x <- as_number a0; Ok [x]
    end
  else mapM as_number args.

Definition collect_nums_prod (args : list value) : outcome (list num) :=
  if Nat.eqb (length args) 1 then
    do a0 <- arg args 0;
    match a0 with
    | VList l => mapM as_number l
    | _ => do x <- as_number a0; Ok [x]
    end
  else mapM as_number args.

Definition collect_nums_sum (args : list value) : outcome (list num) :=
  if Nat.eqb (length args) 1 then
    do a0 <- arg args 0;
    match a0 with
    | VList l => mapM as_number l
    | _ => do x <- as_number a0; Ok [x]
    end
  else mapM as_number args.

(* median: the else branch is `args.into_iter()` instead of `args.iter()` — same elements *)
Definition collect_nums_median (args : list value) : outcome (list num) :=
  if Nat.eqb (length args) 1 then
    do a0 <- arg args 0;
    match a0 with
    | VList l => mapM as_number l
    | _ => do x <- as_number a0; Ok [x]
    end
  else mapM as_number args.

(* ---------- min max avg prod sum ---------- *)
(* nums.iter().copied().fold(f64::INFINITY, f64::min) *)
Definition fold_min (nums : list num) : num := fold_left nmin nums npinf.
Definition fold_max (nums : list num) : num := fold_left nmax nums nninf.
(* nums.iter().sum::<f64>()  = fold(-0.0, |a, b| a + b) *)
Definition fold_sum (nums : list num) : num := fold_left nadd nums nnzero.
(* nums.iter().product::<f64>() = fold(1.0, |a, b| a * b) *)
Definition fold_prod (nums : list num) : num := fold_left nmul nums n1.

Definition bi_min (args : list value) : outcome value :=
  do nums <- collect_nums_min args;
  if is_empty nums then Err
  else Ok (VNum (fold_min nums)).

Definition bi_max (args : list value) : outcome value :=
  do nums <- collect_nums_max args;
  if is_empty nums then Err
  else Ok (VNum (fold_max nums)).

Definition bi_avg (args : list value) : outcome value :=
  do nums <- collect_nums_avg args;
  if is_empty nums then Err
  else Ok (VNum (ndiv (fold_sum nums) (num_of_Z (len nums)))).     (* nums.len() as f64 *)

Definition bi_prod (args : list value) : outcome value :=
  do nums <- collect_nums_prod args;
  if is_empty nums then Err
  else Ok (VNum (fold_prod nums)).

Definition bi_sum (args : list value) : outcome value :=
  do nums <- collect_nums_sum args;
  if is_empty nums then Err
  else Ok (VNum (fold_sum nums)).

(* ---------- nums.sort_by(|a, b| a.partial_cmp(b).unwrap()) ----------
   A stable insertion sort, left to right (what core::slice::sort uses below 21 elements; the
   result of any stable sort is the same list).  The comparator aborts on a NaN operand:
   partial_cmp = None, unwrap panics.  insert_pc x l puts x after every element <= x. *)
Fixpoint insert_pc (x : num) (l : list num) : outcome (list num) :=
  match l with
  | [] => Ok [x]
  | y :: r =>
      match ncmp x y with
      | None => Panic                                   (* .unwrap() on None *)
      | Some Lt => Ok (x :: y :: r)
      | Some _ => do r' <- insert_pc x r; Ok (y :: r')
      end
  end.
Definition sort_pc (l : list num) : outcome (list num) :=
  fold_left (fun acc x => do a <- acc; insert_pc x a) l (Ok []).

(* ---------- median ----------
     if nums.is_empty() { return Err(..) }
     if nums.iter().any(|n| n.is_nan()) { return Ok(Value::Number(f64::NAN)); }     (since 710ac9a)
     nums.sort_by(|a, b| a.partial_cmp(b).unwrap());
     let len = nums.len();
     if len % 2 == 0 { (nums[len / 2 - 1] + nums[len / 2]) / 2.0 } else { nums[len / 2] }          *)
Definition has_nan (nums : list num) : bool := existsb is_nan nums.

Definition bi_median (args : list value) : outcome value :=
  do nums <- collect_nums_median args;
  if is_empty nums then Err
  else if has_nan nums then Ok (VNum nnan)
  else
    do nums <- sort_pc nums;
    let len := len nums in
    if (len mod 2 =? 0) then
      do a <- index_num nums (len / 2 - 1);
      do b <- index_num nums (len / 2);
      Ok (VNum (ndiv (nadd a b) n2))
    else
      do a <- index_num nums (len / 2);
      Ok (VNum a).

(* ---------- percentile ----------
     let p = args[1].as_number()?;
     let list = args[0].as_list(heap)?;
     if !(0.0..=100.0).contains(&p) { return Err(..) }
     let mut nums = list.iter().map(|a| a.as_number()).collect::<Result<Vec<f64>>>()?;
     if nums.is_empty() { return Err("percentile requires at least one number") }       (since 710ac9a)
     if nums.iter().any(|n| n.is_nan()) { return Ok(Value::Number(f64::NAN)); }          (since 710ac9a)
     nums.sort_by(|a, b| a.partial_cmp(b).unwrap());
     let index = (p / 100.0 * (nums.len() - 1) as f64).round() as usize;
     Ok(Value::Number(nums[index]))
   `nums.len() - 1` on usize: a build with overflow checks (debug) would panic on an empty vector,
   a release build would wrap to 2^64-1; [overflow_checks] selects the build.  Behind the new
   is_empty guard the subtraction cannot underflow any more: Aggregates/AggPanics prove that the
   outcome does not depend on the build (C15_percentile_build_independent). *)
Definition usize_sub (overflow_checks : bool) (a b : Z) : outcome Z :=
  if a <? b then (if overflow_checks then Panic else Ok ((a - b) mod 2^64)) else Ok (a - b).

Definition percentile_index (p : num) (len1 : Z) : Z :=
  as_usize (nround (nmul (ndiv p n100) (num_of_Z len1))).

Definition in_0_100 (p : num) : bool := nleb n0 p && nleb p n100.

Definition bi_percentile_gen (overflow_checks : bool) (args : list value) : outcome value :=
  do a1 <- arg args 1;
  do p <- as_number a1;
  do a0 <- arg args 0;
  do list <- as_list a0;
  if negb (in_0_100 p) then Err
  else
    do nums <- mapM as_number list;
    if is_empty nums then Err
    else if has_nan nums then Ok (VNum nnan)
    else
      do nums <- sort_pc nums;
      do len1 <- usize_sub overflow_checks (len nums) 1;
      let index := percentile_index p len1 in
      do x <- index_num nums index;
      Ok (VNum x).
Definition bi_percentile : list value -> outcome value := bi_percentile_gen false.

(* ---------- any all dot ---------- *)
(* list.iter().any(|v| v.as_bool().unwrap_or(false)) *)
Definition bool_or_false (v : value) : bool := match v with VBool b => b | _ => false end.
Definition bi_any (args : list value) : outcome value :=
  do a0 <- arg args 0;
  do list <- as_list a0;
  Ok (VBool (existsb bool_or_false list)).
Definition bi_all (args : list value) : outcome value :=
  do a0 <- arg args 0;
  do list <- as_list a0;
  Ok (VBool (forallb bool_or_false list)).

(* let mut sum = 0.0; for (a, b) in a.iter().zip(b.iter()) { sum += a.as_number()? * b.as_number()?; } *)
Fixpoint dot_loop (sum : num) (a b : list value) : outcome num :=
  match a, b with
  | x :: a', y :: b' =>
      do xn <- as_number x;
      do yn <- as_number y;
      dot_loop (nadd sum (nmul xn yn)) a' b'
  | _, _ => Ok sum
  end.
Definition bi_dot (args : list value) : outcome value :=
  do a0 <- arg args 0;
  do a <- as_list a0;
  do a1 <- arg args 1;
  do b <- as_list a1;
  if negb (Nat.eqb (length a) (length b)) then Err
  else do s <- dot_loop n0 a b; Ok (VNum s).

(* ---------- dispatch + the arity check of FunctionDef::call ---------- *)
Inductive agg := AMin | AMax | AAvg | ASum | AProd | AMedian | APercentile | AAny | AAll | ADot.
Definition all_aggs : list agg :=
  [AMin; AMax; AAvg; ASum; AProd; AMedian; APercentile; AAny; AAll; ADot].
Definition agg_builtin (a : agg) : builtin :=
  match a with
  | AMin => B_min | AMax => B_max | AAvg => B_avg | ASum => B_sum | AProd => B_prod
  | AMedian => B_median | APercentile => B_percentile | AAny => B_any | AAll => B_all
  | ADot => B_dot
  end.
Definition bi_agg (a : agg) : list value -> outcome value :=
  match a with
  | AMin => bi_min | AMax => bi_max | AAvg => bi_avg | ASum => bi_sum | AProd => bi_prod
  | AMedian => bi_median | APercentile => bi_percentile | AAny => bi_any | AAll => bi_all
  | ADot => bi_dot
  end.

(* FunctionDef::check_arity on the generated arity table *)
Definition arity_ok (ar : arity) (n : nat) : bool :=
  match ar with
  | AExact k => Nat.eqb n k
  | AAtLeast k => Nat.leb k n
  | ABetween a b => Nat.leb a n && Nat.leb n b
  end.
Definition checked_call (a : agg) (args : list value) : outcome value :=
  if arity_ok (builtin_arity (agg_builtin a)) (length args) then bi_agg a args else Err.

(* ---------- canonical outcome text (twin of harness/src/s_c15.rs) ---------- *)
Definition show_outcome (o : outcome value) : string :=
  match o with
  | Ok v => ("OK:" ++ Blots.Show.show_value None v)%string
  | Err => "ERR"%string
  | ErrDepth => "ERRDEPTH"%string
  | Panic => "PANIC"%string
  | Unmodelled => "UNMODELLED"%string
  end.

(* one correspondence case *)
Definition show_case (checked : bool) (a : agg) (args : list value) : string :=
  show_outcome (if checked then checked_call a args else bi_agg a args).
