(* FmtTokens.v — definitions only (property C07, the multi-line layouts of formatter.rs).

   Two layout-erasing views of what format_expr outputs:

   1. A LEXICAL view of a code text, `lview = canon o toks`:
        toks   splits a text into chunks: blanks (space, tab, "\n", "\r") separate chunks and are
               dropped; a comment ("//" up to the end of the line) is dropped; a string literal
               (quote ... same quote, no escapes, may span lines) is ONE chunk; each of
               ( ) [ ] { } , :  is a chunk of its own; every other maximal run of characters is a
               chunk.  (Operators are not split from their operands: `-x`, `x!`, `a.b`, `...r` are
               single chunks.  No layout of formatter.rs inserts anything inside such a run.)
        canon  removes what the grammar declares optional and the layouts add or drop:
               a `,` directly before `)` `]` `}` (format_list_multiline, format_record_multiline
               and format_call_multiline end every element with `,`; the one-line forms have no
               trailing comma), and the parentheses of a single required lambda parameter
               (`(x) =>` as expr_to_source prints it, `x =>` as format_lambda /
               format_single_line print it: both are argument_list = argument | "(" ... ")").
      These are the ONLY token-level differences between the layouts and the one-line printer
      (formatter.rs read against ast_to_source.rs; checked on every run by the FORMAT-items
      stream of checks/c07.py, which evaluates `lview` on the real formatter's output).
      The view does not record where lines end.

   2. The ITEM stream a layout denotes, `fmt_items`: by recursion parallel to
      format_expr_impl / format_single_line / format_multiline and every layout function of
      Formatter.v, taking the same width decisions (on `render` of the same documents) and
      calling the same oracles with the same arguments, but building pest's token stream
      (PrattTypes.item: a parenthesised group is one primary) instead of text.  Line breaks,
      indentation, commas and comments denote no item.  The oracle record of Formatter.v is
      extended by `oitems` (the token stream of the text expr_to_source returns) and `okey` (the
      key pair of format_record_key's text).  proofs/FmtItems.v proves
      fmt_items = print_items for every width and indentation. *)
From Coq Require Import String Ascii List Bool Arith.
Require Import Blots.Num Blots.gen.Builtins Blots.Ast Blots.Outcome Blots.PrattTypes Blots.gen.PrecTable
               Blots.Pratt Blots.PrattRender Blots.Printer Blots.Formatter.
Import ListNotations.
Local Open Scope list_scope.
Local Open Scope nat_scope.

(* ================================================================== 1. the lexical view *)
Definition is_blank (c : ascii) : bool :=
  let n := nat_of_ascii c in (n =? 32) || (n =? 9) || (n =? 10) || (n =? 13).
Definition is_delim (c : ascii) : bool :=
  let n := nat_of_ascii c in
  (n =? 40) || (n =? 41) || (n =? 91) || (n =? 93) || (n =? 123) || (n =? 125) || (n =? 44) || (n =? 58).
Definition is_slash (c : ascii) : bool := nat_of_ascii c =? 47.

Fixpoint str_of (l : list ascii) : string :=
  match l with [] => EmptyString | c :: r => String c (str_of r) end.
Definition flush (cur : list ascii) : list string :=
  match cur with [] => [] | _ => [str_of (rev cur)] end.

Inductive lmode := LCode | LStr (q : ascii) | LCom.

(* cur = the characters of the chunk being read, last first *)
Fixpoint toks_from (m : lmode) (cur : list ascii) (s : string) : list string :=
  match s with
  | EmptyString => flush cur
  | String c r =>
      match m with
      | LCode =>
          if is_blank c then flush cur ++ toks_from LCode [] r
          else if is_delim c then flush cur ++ String c EmptyString :: toks_from LCode [] r
          else if Formatter.is_quote c then flush cur ++ toks_from (LStr c) [c] r
          else if is_slash c then
            match cur with
            | p :: cur' => if is_slash p then flush cur' ++ toks_from LCom [] r
                           else toks_from LCode (c :: cur) r
            | [] => toks_from LCode [c] r
            end
          else toks_from LCode (c :: cur) r
      | LStr q =>
          if Ascii.eqb c q then str_of (rev (c :: cur)) :: toks_from LCode [] r
          else toks_from (LStr q) (c :: cur) r
      | LCom => if Ascii.eqb c NLc then toks_from LCode [] r else toks_from LCom [] r
      end
  end.
Definition toks (s : string) : list string := toks_from LCode [] s.

Local Open Scope string_scope.
Definition is_closer (t : string) : bool := (t =? ")") || (t =? "]") || (t =? "}").
(* (ASCII_ALPHA | ASCII_DIGIT | "_")+ *)
Definition is_name (t : string) : bool :=
  match t with EmptyString => false | _ => forall_chars is_ident_rest t end.

Fixpoint canon (l : list string) : list string :=
  match l with
  | [] => []
  | t :: r =>
      if (t =? ",") && match r with c :: _ => is_closer c | [] => false end then canon r
      else
        match r with
        | x :: p :: a :: r' =>
            if (t =? "(") && is_name x && (p =? ")") && (a =? "=>") then x :: a :: canon r'
            else t :: canon r
        | _ => t :: canon r
        end
  end.

Definition lview (s : string) : list string := canon (toks s).
Fixpoint view_eqb (a b : list string) : bool :=
  match a, b with
  | [], [] => true
  | x :: a', y :: b' => (x =? y) && view_eqb a' b'
  | _, _ => false
  end.
Definition show_view (l : list string) : string := Formatter.sjoin "," (map hex_of_string l).
Local Close Scope string_scope.

(* ================================================================== 2. the item stream of a layout *)
Section Items.
  Variable O : oracles.
  Variable oitems : expr -> list item.     (* the token stream of the text o_e2s O returns *)
  Variable okey : string -> rkeyi.         (* the record_key_static pair of the text o_record_key O returns *)
  (* version switch: true = fixes/C07-crlf-lines.diff (the via/into/where arm of
     format_binary_op_multiline re-assembles the right operand with split('\n'): the identity);
     false = formatter.rs as pinned: the re-assembly goes through str::lines(), which drops the "\r"
     of every "\r\n" — inside a string literal of the right operand this changes the literal
     (finding F55, class crlf-lines).  `orelined r s` stands for the token stream of such a changed
     text s of r; nothing is known about it. *)
  Variable lines_fixed : bool.
  Variable orelined : expr -> string -> list item.
  Local Notation needs_parens := (o_needs_parens O).
  Local Notation postfix_parens := (o_postfix_parens O).
  Local Notation lambda_body_parens := (o_lambda_body_parens O).
  Local Notation unary_parens := (o_unary_parens O).
  Local Notation keep := (o_keep_nested_comments O).

  (* record entry, given the items of its sub-expressions *)
  Definition entry_relem (f : expr -> list item) (r : rentry) : relem :=
    match r with
    | REntry (KStatic key) v => RPairI (okey key) (f v) None
    | REntry (KDyn ke) v => RPairI (RKDyn [IExpr false (f ke)]) (f v) None
    | REntry (KShort name) _ => RShortI name None
    | REntry (KSpread x) _ => RSpreadI (f x) None
    end.

  (* format_single_line / format_record_entry_single_line.  The placeholders "[\n]" / "{\n}" of a
     list / record whose items carry comments are a `[` `]` / `{` `}` pair. *)
  Fixpoint fsl_items (e : expr) : list item :=
    match e with
    | EAssign x v => [IAssign x (fsl_items v)]
    | EOutput x => fsl_items x                 (* `output` is the statement's keyword, not an item *)
    | ELam args body => [ILambda args (wrapb (lambda_body_parens body) (fsl_items body))]
    | ECall f args => wrapb (postfix_parens f) (fsl_items f) ++ [ICall (map fsl_items args)]
    | EList items =>
        if existsb has_comments items then [IList []]
        else [IList (map (fun c => LItem (fsl_items (cnode c)) None) items)]
    | ERec entries =>
        if existsb has_comments entries then [IRecord []]
        else [IRecord (map (fun c => entry_relem fsl_items (cnode c)) entries)]
    | _ => oitems e
    end.

  Variable w : nat.                                            (* max_cols *)

  Section LayoutItems.
    Variable recd : expr -> nat -> doc.          (* format_expr_impl(child, max_cols, indent): the text *)
    Variable rec : expr -> nat -> list item.     (* ... and its item stream *)

    (* format_list_multiline: one list_item per element; comments and commas denote nothing *)
    Fixpoint list_lelems (l : list (commented expr)) (inner : nat) : list lelem :=
      match l with
      | [] => []
      | Cm _ n _ :: rest => LItem (rec n inner) None :: list_lelems rest inner
      end.
    Definition list_items (items : list (commented expr)) (i : nat) : list item :=
      match items with
      | [] => [IList []]
      | _ => [IList (list_lelems items (i + INDENT_SIZE))]
      end.

    (* format_record_entry / format_record_multiline *)
    Fixpoint rec_relems (l : list (commented rentry)) (inner : nat) : list relem :=
      match l with
      | [] => []
      | Cm _ r _ :: rest => entry_relem (fun x => rec x inner) r :: rec_relems rest inner
      end.
    Definition record_items (entries : list (commented rentry)) (i : nat) : list item :=
      match entries with
      | [] => [IRecord []]
      | _ => [IRecord (rec_relems entries (i + INDENT_SIZE))]
      end.

    (* protect_leading_minus: the parentheses are decided on the TEXT *)
    Definition protect_items (d : doc) (its : list item) (is_first : bool) : list item :=
      if negb is_first && starts_with_minus (render d) then [IExpr true its] else its.

    (* format_lambda *)
    Definition lambda_items (args : list lamarg) (body : expr) (i : nat) : list item :=
      let args_part := (lambda_args_part args +++ " =>")%string in
      if is_do body then [ILambda args (rec body i)]
      else
        let single := [Code (args_part +++ " ")%string] ++
                      wrap_parens (lambda_body_parens body) (recd body i) in
        let s := render single in
        if negb (contains_nl s) && (i + String.length s <=? w)%nat
        then [ILambda args (wrapb (lambda_body_parens body) (rec body i))]
        else [ILambda args (wrapb (lambda_body_parens body) (rec body (i + INDENT_SIZE)))].

    (* format_conditional_multiline; fcd = the condition's text, fc / ft its / the then-branch's items *)
    Fixpoint cond_items (fcd : nat -> doc) (fc ft : nat -> list item) (el : expr) (i : nat)
             {struct el} : list item :=
      let if_then_prefix := [Code "if "%string] ++ fcd i ++ [Code " then"%string] in
      let inner := i + INDENT_SIZE in
      if (i + String.length (render if_then_prefix) <=? w)%nat then
        match el with
        | ECond c2 t2 e2 => [ICond (fc i) (ft inner) (cond_items (recd c2) (rec c2) (rec t2) e2 i)]
        | _ => [ICond (fc i) (ft inner) (rec el inner)]
        end
      else
        match el with
        | ECond c2 t2 e2 => [ICond (fc inner) (ft inner) (cond_items (recd c2) (rec c2) (rec t2) e2 i)]
        | _ => [ICond (fc inner) (ft inner) (rec el inner)]
        end.

    (* format_call_multiline *)
    Definition call_items (f : expr) (args : list expr) (i : nat) : list item :=
      let func := wrapb (postfix_parens f) (rec f i) in
      match args with
      | [] => func ++ [ICall []]
      | _ => func ++ [ICall (map (fun a => rec a (i + INDENT_SIZE)) args)]
      end.

    (* format_binary_op_multiline *)
    Definition binop_items (op : binop) (l r : expr) (i : nat) : list item :=
      let op_str := binary_op_str op in
      let left := wrapb (needs_parens op l true) (rec l i) in
      let leftd := wrap_parens (needs_parens op l true) (recd l i) in
      let rp := needs_parens op r false in
      if is_via_like op && Formatter.is_lambda r then
        let rs := render (wrap_parens rp (recd r i)) in
        let first_line_combined := (render leftd +++ " " +++ op_str +++ " " +++ first_line rs)%string in
        if (i + String.length first_line_combined <=? w)%nat then
          (* the re-assembled right operand: the same text (same tokens) unless lines() changed it *)
          if negb lines_fixed && (contains_nl rs && negb (String.eqb (relined rs) rs))
          then left ++ IOp (binop_rule op) :: orelined r (relined rs)
          else left ++ IOp (binop_rule op) :: wrapb rp (rec r i)
        else left ++ IOp (binop_rule op) :: wrapb rp (rec r i)
      else
        left ++ IOp (binop_rule op) :: wrapb rp (rec r (i + INDENT_SIZE)).

    (* format_do_block_multiline *)
    Fixpoint do_delems (l : list (commented expr)) (last : list delem) (inner : nat) (first : bool)
      : list delem :=
      match l with
      | [] => last
      | Cm _ n _ :: rest =>
          PrattTypes.DStmt (protect_items (recd n inner) (rec n inner) first) None ::
          do_delems rest last inner false
      end.
    Definition do_items (stmts : list (commented expr)) (ret : commented expr) (i : nat) : list item :=
      let inner := i + INDENT_SIZE in
      [IDo (do_delems stmts [DRet (rec (cnode ret) inner)] inner true)].

    (* format_multiline *)
    Definition multiline_items (e : expr) (i : nat) : list item :=
      match e with
      | EOutput x => rec x i
      | EAssign x v => [IAssign x (rec v i)]
      | EList items => list_items items i
      | ERec entries => record_items entries i
      | ECond c t el => cond_items (recd c) (rec c) (rec t) el i
      | ECall f args => call_items f args i
      | EBin op l r => binop_items op l r i
      | EDo stmts ret => do_items stmts ret i
      | _ =>
          if keep && contains_comments e then
            match e with
            | EUn op x => unop_item op :: wrapb (unary_parens x) (rec x i)
            | EFact x => wrapb (postfix_parens x) (rec x i) ++ [IOp R_factorial]
            | EAccess a ix => wrapb (postfix_parens a) (rec a i) ++ [IAccess [IExpr false (rec ix i)]]
            | EDot a field => wrapb (postfix_parens a) (rec a i) ++ [IDot field]
            | ESpread x => [IOp R_spread_operator; IExpr false (rec x i)]
            | _ => oitems e
            end
          else oitems e
      end.

    (* format_expr_impl *)
    Definition impl_items (e : expr) (i : nat) : list item :=
      match e with
      | ELam args body => lambda_items args body i
      | EDo stmts ret => multiline_items e i
      | _ =>
          if fits_single O w e i && negb (keep && contains_comments e) then fsl_items e
          else multiline_items e i
      end.
  End LayoutItems.

  Fixpoint fmt_items (e : expr) (i : nat) {struct e} : list item :=
    impl_items (fmtd O w) fmt_items e i.
End Items.

(* format_expr *)
Definition format_expr_items (O : oracles) (oitems : expr -> list item) (okey : string -> rkeyi)
           (lines_fixed : bool) (orelined : expr -> string -> list item)
           (e : expr) (max_columns : option nat) : list item :=
  fmt_items O oitems okey lines_fixed orelined (match max_columns with Some n => n | None => DEFAULT_MAX_COLUMNS end) e 0.

(* ------------------------------------------------------------------ the oracles as Printer.v has them *)
(* ast_to_source.rs as transcribed by Printer.v (property C07's printer, any version `fx` / `pol`),
   packaged as the oracle record formatter.rs imports.  needs_parens_in_postfix is one function in
   the code: pP (callees use pC, which the repaired policy sets to the same function). *)
Definition printer_oracles (fx : fixes) (pol : policy) (numtxt : num -> string) (keepc : bool) : oracles :=
  Oracles (print_text fx pol numtxt)
          (fun op c is_left => if is_left then pL pol op c else pR pol op c)
          (format_record_key fx) (pP pol) (pB pol) (pU pol) keepc.

(* lambda parameters that a statement can start with: `x => body` is printed without parentheses,
   so protect_leading_minus looks at the first character of the name.  An identifier of the
   grammar starts with a letter or `_`; the trees the theorems quantify over need only this. *)
Definition name_ok (x : string) : bool := negb (starts_minus x).
Fixpoint lam_ok (e : expr) : bool :=
  match e with
  | ELam args body => match args with [AReq x] => name_ok x | _ => true end && lam_ok body
  | EList items =>
      (fix go (l : list (commented expr)) : bool :=
         match l with [] => true | Cm _ x _ :: l' => lam_ok x && go l' end) items
  | ERec entries =>
      (fix go (l : list (commented rentry)) : bool :=
         match l with
         | [] => true
         | Cm _ (REntry k v) _ :: l' =>
             match k with KDyn d => lam_ok d | KSpread x => lam_ok x | _ => true end && lam_ok v && go l'
         end) entries
  | ECond c t f => lam_ok c && lam_ok t && lam_ok f
  | EDo stmts (Cm _ ret _) =>
      (fix go (l : list (commented expr)) : bool :=
         match l with [] => true | Cm _ x _ :: l' => lam_ok x && go l' end) stmts && lam_ok ret
  | EAssign _ v => lam_ok v
  | EOutput x => lam_ok x
  | ECall f args =>
      lam_ok f && (fix go (l : list expr) : bool :=
                     match l with [] => true | a :: l' => lam_ok a && go l' end) args
  | EAccess x i => lam_ok x && lam_ok i
  | EDot x _ => lam_ok x
  | EBin _ l r => lam_ok l && lam_ok r
  | EUn _ x => lam_ok x
  | EFact x => lam_ok x
  | ESpread x => lam_ok x
  | _ => true
  end.

(* no string literal / quoted record key of the tree contains a carriage return (the exclusion of
   finding class crlf-lines) *)
Definition no_cr (s : string) : bool := negb (contains_char CRc s).
Fixpoint cr_free (e : expr) : bool :=
  match e with
  | EStr s => no_cr s
  | EList items =>
      (fix go (l : list (commented expr)) : bool :=
         match l with [] => true | Cm _ x _ :: l' => cr_free x && go l' end) items
  | ERec entries =>
      (fix go (l : list (commented rentry)) : bool :=
         match l with
         | [] => true
         | Cm _ (REntry k v) _ :: l' =>
             match k with KStatic s => no_cr s | KDyn d => cr_free d | KSpread x => cr_free x | _ => true end
             && cr_free v && go l'
         end) entries
  | ELam _ body => cr_free body
  | ECond c t f => cr_free c && cr_free t && cr_free f
  | EDo stmts (Cm _ ret _) =>
      (fix go (l : list (commented expr)) : bool :=
         match l with [] => true | Cm _ x _ :: l' => cr_free x && go l' end) stmts && cr_free ret
  | EAssign _ v => cr_free v
  | EOutput x => cr_free x
  | ECall f args =>
      cr_free f && (fix go (l : list expr) : bool :=
                      match l with [] => true | a :: l' => cr_free a && go l' end) args
  | EAccess x i => cr_free x && cr_free i
  | EDot x _ => cr_free x
  | EBin _ l r => cr_free l && cr_free r
  | EUn _ x => cr_free x
  | EFact x => cr_free x
  | ESpread x => cr_free x
  | _ => true
  end.

(* ================================================================== 3. running the views *)
(* One FORMAT-items line: the view of the real formatter's output `out` for the statement `e`
   against the view of the one-line printer's text of e (= items_text7 of print_items e,
   C07_items_render), and the proved item stream against print_items (a regression guard on the
   definitions: equal by C07_layout_preserves_items).
     "<SAME|DIFF> <hex view of out>" *)
Definition show_fmtview (fx : fixes) (width : nat) (e : expr) (out : string) : string :=
  let pol := policy_of fx gen_opinfo in
  let v := lview out in
  let ref := lview (print_text fx pol num_text e) in
  ((if view_eqb v ref then "SAME" else "DIFF") +++ " " +++ show_view v)%string.
