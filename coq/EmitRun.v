(* EmitRun.v — what the EMIT correspondence runs: the original function value and the model's
   reloaded function applied to argument tuples with the instantiated evaluator (EvalInst.v).
   Definitions only. *)
From Coq Require Import String Ascii List ZArith Bool.
Require Import Blots.Num Blots.gen.Builtins Blots.Ast Blots.Value Blots.Outcome Blots.Env
               Blots.Eval Blots.Program Blots.EvalInst Blots.Show Blots.Emit.
Import ListNotations.
Open Scope list_scope.
Open Scope string_scope.

Definition show_out (r : outcome value) : string :=
  match r with
  | Ok v => "OK:" ++ show_value None v
  | ErrDepth => "ERRDEPTH" | Panic => "PANIC" | Unmodelled => "UNMODELLED" | Err => "ERR"
  end.

(* a root frame in which the function is bound to f__ (the harness inserts it directly) *)
Definition call_cfg (st : store) (f : value) (inputs : list (string * value)) : cfg :=
  (st, [(FOwned, [("f__", f); ("inputs", VRec inputs)])]).
Definition call_show (st : store) (f : value) (inputs : list (string * value)) (call : expr) : string :=
  show_out (fst (eval_release (call_cfg st f inputs) call)).

(* for each call expression `f__(args)`: original / reloaded, as the harness prints them *)
Definition emit_behaviour (nanfix dofix : bool) (st : store) (v : value) (calls : list expr) : string :=
  let reloaded :=
    match emit_ast nanfix dofix v with
    | Some e => reload_ast (Datatypes.length st) e
    | None => None
    end in
  join " " (map (fun c =>
                   call_show st v [] c ++ "/" ++
                   match reloaded with
                   | Some v' => call_show (st ++ [None])%list v' [("f", v')] c
                   | None => "NOFUN"
                   end) calls).

(* the same when the session that created the function had a non-empty `inputs` record (the reloaded function
   runs in a fresh session whose inputs hold only the function) *)
Definition emit_behaviour_in (inputs : value) (nanfix dofix : bool) (st : store) (v : value) (calls : list expr)
  : string :=
  let reloaded :=
    match emit_ast nanfix dofix v with
    | Some e => reload_ast (Datatypes.length st) e
    | None => None
    end in
  join " " (map (fun c =>
                   call_show st v (match inputs with VRec r => r | _ => [] end) c ++ "/" ++
                   match reloaded with
                   | Some v' => call_show (st ++ [None])%list v' [("f", v')] c
                   | None => "NOFUN"
                   end) calls).
