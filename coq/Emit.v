(* Emit.v — emission of a function value as portable source (property C05).  Definitions only.

   Rust (blots-core):
     SerializableValue::from_value, Value::Lambda arm (values.rs:705-727)
         serializable_scope = the captured scope, every value serialised
         body               = expr_to_source_with_scope(lambda.body, serializable_scope)
     SerializableValue::to_json (values.rs:644-667)   "(" args ") => " body
     expr_to_source_with_scope (ast_to_source.rs:268-421): the printer with INLINING — an
         identifier (or record shorthand) that is a key of the scope is replaced by the source of
         its value (serializable_value_to_source); a lambda removes its parameters from the
         scope for its body.
     SerializableValue::from_json / parse_function_source / to_value (values.rs:555-623, 733-787)
         reload: parse the text, take the lambda, print its body again with expr_to_source and
         parse that once more; scope empty, name None.

   The model works on ASTs.  The text layer (printing an AST and parsing it back gives the AST)
   is the subject of C07 and is tied to this model by the EMIT correspondence stream, which
   compares, for every generated function, the AST the REAL parser returns for the REAL emitted
   text with [emit_ast] below, and the body AST of the REAL reloaded function with it too.
   What is specific to emission is modelled here:
     - [value_to_ast]  the AST denoted by the literal text of a captured value
     - [subst]         the inlining performed by expr_to_source_with_scope
     - [emit_ast], [reload_ast]
     - the one piece of text that emission adds to the printer: string literals
       ([string_lit_src], read back by [read_string_lit], the grammar's `string` rule).

   Two behaviours of the code are selected by flags, because the repository code is wrong and a
   repair is proposed (fixes/C05-*.diff); `false` = the code as it is, `true` = repaired:
     nanfix  NaN is written `NaN` (an unbound identifier)            | `(0/0)`
     dofix   a do-block local that shadows a captured name is still   | removed from the scope
             replaced by the captured value in the rest of the block  | after its assignment
   (string quoting and the parentheses around negative literals are text-level, see below). *)
From Coq Require Import String Ascii List ZArith Bool Floats.SpecFloat.
Require Import Blots.Num Blots.gen.Builtins Blots.Ast Blots.Value Blots.Outcome Blots.Env
               Blots.proofs.ValueInd.
Import ListNotations.
Open Scope list_scope.
Open Scope string_scope.

(* ------------------------------------------------------------------------------------------ *)
(* the inlining scope: name -> AST of the literal text of the captured value
   (IndexMap<String, SerializableValue>; only `get` and `shift_remove` are used) *)
Definition smap := list (string * expr).
Definition smap_remove (m : smap) (x : string) : smap :=
  filter (fun kv => negb (String.eqb (fst kv) x)) m.
Definition smap_remove_all (m : smap) (xs : list string) : smap := fold_left smap_remove xs m.

(* the scope seen by the statements after [s] in a do-block *)
Definition do_step_map (dofix : bool) (m : smap) (s : expr) : smap :=
  if dofix then match s with EAssign x _ => smap_remove m x | _ => m end else m.
Fixpoint do_final_map (dofix : bool) (m : smap) (l : list (commented expr)) : smap :=
  match l with
  | [] => m
  | Cm _ s _ :: r => do_final_map dofix (do_step_map dofix m s) r
  end.

(* String.  The grammar has no escape sequences: string = PUSH(dquote | squote) (!PEEK ANY)* POP.
   Repaired emission: the quote character that does not occur in the string; a string with both
   kinds is written as a parenthesised concatenation  (DQ a DQ + SQ DQ SQ + DQ b DQ)  of the
   pieces between its double quotes. *)
Definition dq : ascii := ascii_of_nat 34.
Definition sq : ascii := ascii_of_nat 39.
Definition bs : ascii := ascii_of_nat 92.
Fixpoint has_char (c : ascii) (s : string) : bool :=
  match s with
  | EmptyString => false
  | String a r => Ascii.eqb a c || has_char c r
  end.
(* str::split on the double quote *)
Fixpoint split_dq (s : string) (cur : string) : list string :=
  match s with
  | EmptyString => [cur]
  | String a r =>
      if Ascii.eqb a dq then cur :: split_dq r "" else split_dq r (cur ++ String a "")
  end.
Fixpoint concat_ast (acc : expr) (l : list string) : expr :=
  match l with
  | [] => acc
  | p :: r => concat_ast (EBin Add (EBin Add acc (EStr (String dq ""))) (EStr p)) r
  end.
Definition both_quotes (s : string) : bool := has_char dq s && has_char sq s.
Definition str_to_ast (s : string) : expr :=
  if both_quotes s then
    match split_dq s "" with
    | [] => EStr s
    | p :: r => concat_ast (EStr p) r
    end
  else EStr s.

(* is_valid_identifier: ASCII letter or underscore first, then letters, digits, underscores,
   and not one of the twelve reserved words *)
Definition is_alpha_ (c : ascii) : bool :=
  let n := nat_of_ascii c in
  (Nat.leb 65 n && Nat.leb n 90) || (Nat.leb 97 n && Nat.leb n 122) || Nat.eqb n 95.
Definition is_alnum_ (c : ascii) : bool :=
  let n := nat_of_ascii c in is_alpha_ c || (Nat.leb 48 n && Nat.leb n 57).
Fixpoint all_chars (p : ascii -> bool) (s : string) : bool :=
  match s with EmptyString => true | String a r => p a && all_chars p r end.
Definition printer_reserved : list string :=
  ["if"; "then"; "else"; "true"; "false"; "null"; "and"; "or"; "not"; "do"; "return"; "output"].
Definition is_valid_identifier (s : string) : bool :=
  match s with
  | EmptyString => false
  | String a r => negb (mem s printer_reserved) && is_alpha_ a && all_chars is_alnum_ r
  end.

Section Subst.
  Variable dofix : bool.

  (* expr_to_source_with_scope, as an AST transformation *)
  Fixpoint subst (m : smap) (e : expr) {struct e} : expr :=
    match e with
    | EId x => match rec_get m x with Some a => a | None => EId x end
    (* `#field` is `inputs.field` (repo fix 2a8e167 of F54, known/C05.json): with `inputs` inlined it is printed the
       way that form is; a field spelled like a reserved word cannot follow `.` (`#if` parses, `{..}.if` does not)
       and is printed as an index:
         match scope.get("inputs") { Some(v) if is_valid_identifier(field) => "<literal of v>.field",
                                     Some(v) => "<literal of v>[<string literal of field>]", None => "#field" } *)
    | EInRef f =>
        match rec_get m "inputs" with
        | Some a => if is_valid_identifier f then EDot a f else EAccess a (str_to_ast f)
        | None => e
        end
    | ENum _ | EStr _ | EBool _ | ENull | EBuiltin _ => e
    | EList items =>
        EList ((fix go (l : list (commented expr)) : list (commented expr) :=
                  match l with
                  | [] => []
                  | Cm a n t :: r => Cm a (subst m n) t :: go r
                  end) items)
    | ERec entries =>
        ERec ((fix go (l : list (commented rentry)) : list (commented rentry) :=
                 match l with
                 | [] => []
                 | Cm a (REntry k v) t :: r =>
                     Cm a (match k with
                           | KStatic s => REntry (KStatic s) (subst m v)
                           | KDyn ke => REntry (KDyn (subst m ke)) (subst m v)
                           | KShort x =>
                               (* `{y}` with y captured is written `y: <value>` *)
                               match rec_get m x with
                               | Some lit => REntry (KStatic x) lit
                               | None => REntry (KShort x) v
                               end
                           | KSpread se => REntry (KSpread (subst m se)) v
                           end) t :: go r
                 end) entries)
    | ELam args body => ELam args (subst (smap_remove_all m (map arg_name args)) body)
    | ECond c t f => ECond (subst m c) (subst m t) (subst m f)
    | EDo stmts (Cm rl ret rt) =>
        EDo ((fix go (l : list (commented expr)) (m' : smap) {struct l} : list (commented expr) :=
                match l with
                | [] => []
                | Cm a s t :: r => Cm a (subst m' s) t :: go r (do_step_map dofix m' s)
                end) stmts m)
            (Cm rl (subst (do_final_map dofix m stmts) ret) rt)
    | EAssign x v => EAssign x (subst m v)
    | EOutput a => EOutput (subst m a)
    | ECall f args =>
        ECall (subst m f)
              ((fix go (l : list expr) : list expr :=
                  match l with [] => [] | a :: r => subst m a :: go r end) args)
    | EAccess a i => EAccess (subst m a) (subst m i)
    | EDot a f => EDot (subst m a) f
    | EBin op l r => EBin op (subst m l) (subst m r)
    | EUn op a => EUn op (subst m a)
    | EFact a => EFact (subst m a)
    | ESpread a => ESpread (subst m a)
    end.
End Subst.

(* ------------------------------------------------------------------------------------------ *)
(* serializable_value_to_source, as the AST its text denotes *)

(* Number: `{:.0}` / Display text; the parser reads a leading `-` as the prefix operator, `inf`
   as the identifier the evaluator special-cases, `NaN` as a plain (unbound) identifier *)
Definition num_to_ast (nanfix : bool) (x : num) : expr :=
  match x with
  | S754_nan => if nanfix then EBin Divide (ENum nzero) (ENum nzero) else EId "NaN"
  | S754_infinity false => EId "inf"
  | S754_infinity true => EUn Negate (EId "inf")
  | _ => if nsign x then EUn Negate (ENum (nneg x)) else ENum x
  end.

(* a record key: bare identifier or string literal; with both quote kinds a computed key *)
Definition key_to_rkey (k : string) : rkey :=
  if both_quotes k then KDyn (str_to_ast k) else KStatic k.

Section ValueToAst.
  Variable nanfix dofix : bool.

  Fixpoint value_to_ast (v : value) {struct v} : expr :=
    match v with
    | VNum x => num_to_ast nanfix x
    | VBool b => EBool b
    | VNull => ENull
    | VStr s => str_to_ast s
    | VList l =>
        EList ((fix go (l : list value) : list (commented expr) :=
                  match l with [] => [] | x :: r => Cm [] (value_to_ast x) None :: go r end) l)
    | VRec r =>
        ERec ((fix go (r : list (string * value)) : list (commented rentry) :=
                 match r with
                 | [] => []
                 | (k, x) :: r' => Cm [] (REntry (key_to_rkey k) (value_to_ast x)) None :: go r'
                 end) r)
    | VLam _ args body scope =>
        (* `((args) => body)` with the closure's own captured values inlined in its body *)
        ELam args
             (subst dofix
                    ((fix go (r : list (string * value)) : smap :=
                        match r with [] => [] | (k, x) :: r' => (k, value_to_ast x) :: go r' end) scope)
                    body)
    | VBuiltin b => EBuiltin b
    | VSpread _ => ENull       (* from_value fails ("cannot serialize a spread value") *)
    end.

  Definition scope_map (scope : list (string * value)) : smap :=
    map (fun kv => (fst kv, value_to_ast (snd kv))) scope.

  (* the AST denoted by the blots-function text of a function value *)
  Definition emit_ast (v : value) : option expr :=
    match v with
    | VLam _ args body scope => Some (ELam args (subst dofix (scope_map scope) body))
    | _ => None
    end.
End ValueToAst.

(* from_json + to_value of a __blots_function object whose text parsed to [e]:
   the lambda's parameter list and body, no scope, no name ([id] = a fresh heap cell) *)
Definition reload_ast (id : lam_id) (e : expr) : option value :=
  match e with
  | ELam args body => Some (VLam id args body [])
  | _ => None
  end.

(* ------------------------------------------------------------------------------------------ *)
(* value classes *)

(* can be serialised at all *)
Fixpoint serializable (v : value) : bool :=
  match v with
  | VList l => forallb serializable l
  | VRec r => forallb (fun kv => serializable (snd kv)) r
  | VLam _ _ _ sc => forallb (fun kv => serializable (snd kv)) sc
  | VSpread _ => false
  | _ => true
  end.

(* first-order values: no function created by the program inside (built-ins are names);
   records satisfy the IndexMap invariant (unique keys) *)
Fixpoint fo (v : value) : bool :=
  match v with
  | VNum _ | VBool _ | VNull | VStr _ | VBuiltin _ => true
  | VList l => forallb fo l
  | VRec r => nodup_keys r && forallb (fun kv => fo (snd kv)) r
  | VLam _ _ _ _ | VSpread _ => false
  end.

(* lambda-free values (what a first-order computation manipulates; VSpread is transient) *)
Fixpoint lf (v : value) : bool :=
  match v with
  | VList l => forallb lf l
  | VRec r => forallb (fun kv => lf (snd kv)) r
  | VLam _ _ _ _ => false
  | VSpread x => lf x
  | _ => true
  end.

(* ---- classes of captured values whose literal does not denote the value ----
   has_nan      (current code; nanfix repairs it)            F10
   both-quote strings: their repaired literal is a concatenation, evaluated by `+` *)
Fixpoint has_nan (v : value) : bool :=
  match v with
  | VNum x => is_nan x
  | VList l => existsb has_nan l
  | VRec r => existsb (fun kv => has_nan (snd kv)) r
  | _ => false
  end.
Fixpoint has_both_quotes (v : value) : bool :=
  match v with
  | VStr s => both_quotes s
  | VList l => existsb has_both_quotes l
  | VRec r => existsb (fun kv => both_quotes (fst kv) || has_both_quotes (snd kv)) r
  | _ => false
  end.
(* the literal of [v] denotes [v] for every implementation of the operators *)
Definition emittable (nanfix : bool) (v : value) : bool :=
  fo v && negb (has_both_quotes v) && (nanfix || negb (has_nan v)).
(* ... and with NaN / both-quote strings when `/` and `+` are the transcribed operators *)
Definition emittable_inst (v : value) : bool := fo v.

(* ------------------------------------------------------------------------------------------ *)
(* the text of a string literal and the grammar rule that reads it back *)

(* current code: the string between double quotes, every backslash doubled, then every double
   quote preceded by a backslash *)
Fixpoint escape_current (s : string) : string :=
  match s with
  | EmptyString => EmptyString
  | String a r =>
      if Ascii.eqb a bs then String bs (String bs (escape_current r))
      else if Ascii.eqb a dq then String bs (String dq (escape_current r))
      else String a (escape_current r)
  end.
Definition string_lit_src (fixed : bool) (s : string) : string :=
  if fixed then
    if has_char dq s then String sq (s ++ String sq "") else String dq (s ++ String dq "")
  else String dq (escape_current s ++ String dq "").

(* `string_value = (!PEEK ~ ANY)*` then POP: everything up to the first occurrence of the
   opening quote character; None = no closing quote *)
Fixpoint take_until (q : ascii) (s : string) : option (string * string) :=
  match s with
  | EmptyString => None
  | String a r =>
      if Ascii.eqb a q then Some (EmptyString, r)
      else match take_until q r with
           | Some (v, rest) => Some (String a v, rest)
           | None => None
           end
  end.
(* the `string` rule at the start of [src]: Some (value, remaining text) *)
Definition read_string_lit (src : string) : option (string * string) :=
  match src with
  | String q r => if Ascii.eqb q dq || Ascii.eqb q sq then take_until q r else None
  | EmptyString => None
  end.

(* ------------------------------------------------------------------------------------------ *)
(* closed after capture: every free name of the body is a parameter or a captured value
   (identifiers naming built-ins are EBuiltin nodes, not free names), no `#input` reference,
   and the same for every captured closure *)
Fixpoint no_inref (e : expr) {struct e} : bool :=
  match e with
  | EInRef _ => false
  | EList items =>
      (fix go (l : list (commented expr)) : bool :=
         match l with [] => true | Cm _ a _ :: r => no_inref a && go r end) items
  | ERec entries =>
      (fix go (l : list (commented rentry)) : bool :=
         match l with
         | [] => true
         | Cm _ (REntry k v) _ :: r =>
             (match k with
              | KDyn a => no_inref a && no_inref v
              | KSpread a => no_inref a
              | KStatic _ => no_inref v
              | KShort _ => true
              end) && go r
         end) entries
  | ELam _ b => no_inref b
  | ECond c t f => no_inref c && no_inref t && no_inref f
  | EDo stmts (Cm _ ret _) =>
      (fix go (l : list (commented expr)) : bool :=
         match l with [] => true | Cm _ a _ :: r => no_inref a && go r end) stmts && no_inref ret
  | EAssign _ a | EOutput a | EUn _ a | EFact a | ESpread a | EDot a _ => no_inref a
  | ECall f args =>
      no_inref f && (fix go (l : list expr) : bool :=
                       match l with [] => true | a :: r => no_inref a && go r end) args
  | EAccess a i => no_inref a && no_inref i
  | EBin _ l r => no_inref l && no_inref r
  | _ => true
  end.

Definition is_nil {A} (l : list A) : bool := match l with [] => true | _ => false end.

Fixpoint closed_after_capture (v : value) : bool :=
  match v with
  | VLam _ args body scope =>
      is_nil (free_vars body (map arg_name args ++ map fst scope)%list) && no_inref body &&
      forallb (fun kv => closed_after_capture (snd kv)) scope
  | VList l => forallb closed_after_capture l
  | VRec r => forallb (fun kv => closed_after_capture (snd kv)) r
  | _ => true
  end.

(* ------------------------------------------------------------------------------------------ *)
(* capture-avoidance conditions of the CURRENT inlining (dofix = false), and the other known
   classes, as decidable predicates over (scope names, body) *)

(* some do-block in [e] assigns a name that is being inlined there (F50) *)
Fixpoint do_shadows (names : list string) (e : expr) {struct e} : bool :=
  match e with
  | EList items =>
      (fix go (l : list (commented expr)) : bool :=
         match l with [] => false | Cm _ a _ :: r => do_shadows names a || go r end) items
  | ERec entries =>
      (fix go (l : list (commented rentry)) : bool :=
         match l with
         | [] => false
         | Cm _ (REntry k v) _ :: r =>
             (match k with
              | KDyn a => do_shadows names a || do_shadows names v
              | KSpread a => do_shadows names a
              | KStatic _ => do_shadows names v
              | KShort _ => false
              end) || go r
         end) entries
  | ELam args b => do_shadows (filter (fun x => negb (mem x (map arg_name args))) names) b
  | ECond c t f => do_shadows names c || do_shadows names t || do_shadows names f
  | EDo stmts (Cm _ ret _) =>
      (fix go (l : list (commented expr)) : bool :=
         match l with
         | [] => false
         | Cm _ a _ :: r =>
             (match a with EAssign x _ => mem x names | _ => false end) || do_shadows names a || go r
         end) stmts || do_shadows names ret
  | EAssign _ a | EOutput a | EUn _ a | EFact a | ESpread a | EDot a _ => do_shadows names a
  | ECall f args =>
      do_shadows names f || (fix go (l : list expr) : bool :=
                               match l with [] => false | a :: r => do_shadows names a || go r end) args
  | EAccess a i => do_shadows names a || do_shadows names i
  | EBin _ l r => do_shadows names l || do_shadows names r
  | _ => false
  end.

(* ------------------------------------------------------------------------------------------ *)
(* canonical text of an AST (numbers as bit patterns, strings in hex): used by the EMIT
   correspondence to compare the model's AST with the ASTs the real parser produced *)
Definition show_binop (o : binop) : string :=
  match o with
  | Add => "Add" | Subtract => "Subtract" | Multiply => "Multiply" | Divide => "Divide"
  | Modulo => "Modulo" | Power => "Power" | Equal => "Equal" | NotEqual => "NotEqual"
  | Less => "Less" | LessEq => "LessEq" | Greater => "Greater" | GreaterEq => "GreaterEq"
  | DotEqual => "DotEqual" | DotNotEqual => "DotNotEqual" | DotLess => "DotLess"
  | DotLessEq => "DotLessEq" | DotGreater => "DotGreater" | DotGreaterEq => "DotGreaterEq"
  | And => "And" | NaturalAnd => "NaturalAnd" | Or => "Or" | NaturalOr => "NaturalOr"
  | Via => "Via" | Into => "Into" | Where => "Where" | Coalesce => "Coalesce"
  end.
Definition show_unop (o : unop) : string :=
  match o with Negate => "Negate" | Not => "Not" | Invert => "Invert" end.
Definition show_larg (a : lamarg) : string :=
  match a with
  | AReq x => "r" ++ hex_of_string x | AOpt x => "o" ++ hex_of_string x
  | ARest x => "s" ++ hex_of_string x
  end.
Fixpoint sjoin (sep : string) (l : list string) : string :=
  match l with [] => "" | [x] => x | x :: r => x ++ sep ++ sjoin sep r end.

Fixpoint show_expr (e : expr) {struct e} : string :=
  match e with
  | ENum x => "N" ++ show_num x
  | EStr s => "S" ++ hex_of_string s ++ ";"
  | EBool true => "T" | EBool false => "F"
  | ENull => "U"
  | EId x => "I" ++ hex_of_string x ++ ";"
  | EInRef x => "#" ++ hex_of_string x ++ ";"
  | EBuiltin b => "B" ++ builtin_name b ++ ";"
  | EList items =>
      "[" ++ sjoin "," ((fix go (l : list (commented expr)) : list string :=
                           match l with [] => [] | Cm _ a _ :: r => show_expr a :: go r end) items) ++ "]"
  | ERec entries =>
      "{" ++ sjoin "," ((fix go (l : list (commented rentry)) : list string :=
                           match l with
                           | [] => []
                           | Cm _ (REntry k v) _ :: r =>
                               (match k with
                                | KStatic s => "k" ++ hex_of_string s ++ ":" ++ show_expr v
                                | KDyn a => "d" ++ show_expr a ++ ":" ++ show_expr v
                                | KShort s => "h" ++ hex_of_string s
                                | KSpread a => "x" ++ show_expr a
                                end) :: go r
                           end) entries) ++ "}"
  | ELam args b => "(L " ++ sjoin "," (map show_larg args) ++ " => " ++ show_expr b ++ ")"
  | ECond c t f => "(if " ++ show_expr c ++ " " ++ show_expr t ++ " " ++ show_expr f ++ ")"
  | EDo stmts (Cm _ ret _) =>
      "(do " ++ sjoin ";" ((fix go (l : list (commented expr)) : list string :=
                              match l with [] => [] | Cm _ a _ :: r => show_expr a :: go r end) stmts)
             ++ " ret " ++ show_expr ret ++ ")"
  | EAssign x v => "(= " ++ hex_of_string x ++ " " ++ show_expr v ++ ")"
  | EOutput a => "(out " ++ show_expr a ++ ")"
  | ECall f args =>
      "(call " ++ show_expr f ++ " " ++
      sjoin "," ((fix go (l : list expr) : list string :=
                    match l with [] => [] | a :: r => show_expr a :: go r end) args) ++ ")"
  | EAccess a i => "(idx " ++ show_expr a ++ " " ++ show_expr i ++ ")"
  | EDot a f => "(dot " ++ show_expr a ++ " " ++ hex_of_string f ++ ")"
  | EBin o l r => "(" ++ show_binop o ++ " " ++ show_expr l ++ " " ++ show_expr r ++ ")"
  | EUn o a => "(" ++ show_unop o ++ " " ++ show_expr a ++ ")"
  | EFact a => "(fact " ++ show_expr a ++ ")"
  | ESpread a => "(spread " ++ show_expr a ++ ")"
  end.

Definition show_oexpr (o : option expr) : string :=
  match o with Some e => show_expr e | None => "NONE" end.

(* ------------------------------------------------------------------------------------------ *)
(* Shapes whose plain printing (expr_to_source: parentheses only around a binary operand of
   lower precedence, or of equal precedence on the right of `^ - / %`) is not read back as the
   same AST.  CONSERVATIVE over-approximation of the defect classes F12-F14 of property C07
   (which owns the printer round trip): used only to attribute an AST difference to that
   class, on the original body (C07) or only after inlining (F15: a negative literal in
   postfix position). *)
Definition bin_level (o : binop) : nat :=
  match o with
  | And | NaturalAnd | Or | NaturalOr | Via | Into | Where => 1
  | Equal | NotEqual | Less | LessEq | Greater | GreaterEq
  | DotEqual | DotNotEqual | DotLess | DotLessEq | DotGreater | DotGreaterEq => 2
  | Add | Subtract => 3
  | Multiply | Divide | Modulo => 4
  | Power | Coalesce => 5
  end.
(* an expression whose text is a single term followed by postfix operators *)
Definition is_tight (e : expr) : bool :=
  match e with
  | EBin _ _ _ | EUn _ _ | ECond _ _ _ | ELam _ _ | EAssign _ _ | EOutput _ | ESpread _ => false
  | _ => true
  end.
(* an expression whose text extends as far to the right as possible *)
Definition is_open (e : expr) : bool :=
  match e with ECond _ _ _ | ELam _ _ | EAssign _ _ | EOutput _ => true | _ => false end.

(* a lambda body is a `lambda_expression`: of the word operators only and/or continue it, so a
   body with via / into / where at its top level needs parentheses, which the printer omits *)
Fixpoint top_natural (e : expr) : bool :=
  match e with
  | EBin op l r =>
      (match op with Via | Into | Where => true | _ => false end) || top_natural l || top_natural r
  | EUn _ a => top_natural a
  | _ => false
  end.

Fixpoint paren_lossy (e : expr) {struct e} : bool :=
  match e with
  | EList items =>
      (fix go (l : list (commented expr)) : bool :=
         match l with [] => false | Cm _ a _ :: r => paren_lossy a || go r end) items
  | ERec entries =>
      (fix go (l : list (commented rentry)) : bool :=
         match l with
         | [] => false
         | Cm _ (REntry k v) _ :: r =>
             (match k with
              | KDyn a => paren_lossy a || paren_lossy v
              | KSpread a => paren_lossy a
              | KStatic _ => paren_lossy v
              | KShort _ => false
              end) || go r
         end) entries
  | ELam _ b => top_natural b || paren_lossy b
  | ECond c t f => is_open c || is_open t || paren_lossy c || paren_lossy t || paren_lossy f
  | EDo stmts (Cm _ ret _) =>
      (fix go (l : list (commented expr)) : bool :=
         match l with [] => false | Cm _ a _ :: r => paren_lossy a || go r end) stmts
      || paren_lossy ret
  | EAssign _ a | EOutput a => paren_lossy a
  | ESpread a => negb (is_tight a) || paren_lossy a
  | EUn _ a => (match a with EBin _ _ _ => true | _ => is_open a end) || paren_lossy a
  | EFact a | EDot a _ => negb (is_tight a) || paren_lossy a
  | EAccess a i => negb (is_tight a) || paren_lossy a || paren_lossy i
  | ECall f args =>
      (match f with ELam _ _ => false | _ => negb (is_tight f) end) || paren_lossy f ||
      (fix go (l : list expr) : bool :=
         match l with [] => false | a :: r => paren_lossy a || go r end) args
  | EBin op l r =>
      is_open l || is_open r
      || (match l with
          | EBin lo _ _ => Nat.eqb (bin_level lo) 5 && Nat.eqb (bin_level op) 5
          | EUn _ _ => false
          | _ => false
          end)
      || (match r with
          | EBin ro _ _ =>
              Nat.eqb (bin_level ro) (bin_level op) &&
              (match op with Subtract | Divide | Modulo => false
                           | Power => (match ro with Power => false | _ => true end)
                           | _ => true end)
          | _ => false
          end)
      || paren_lossy l || paren_lossy r
  | _ => false
  end.

(* strings / record keys of captured values that the CURRENT emission escapes (F11) *)
Definition needs_escape (s : string) : bool := has_char dq s || has_char bs s.
Section Classes.
  (* over a function value and everything it captures (nested closures included) *)
  Fixpoint v_needs_escape (v : value) : bool :=
    match v with
    | VStr s => needs_escape s
    | VList l => existsb v_needs_escape l
    | VRec r => existsb (fun kv => needs_escape (fst kv) || v_needs_escape (snd kv)) r
    | VLam _ _ _ sc => existsb (fun kv => v_needs_escape (snd kv)) sc
    | _ => false
    end.
  Fixpoint v_has_nan (v : value) : bool :=
    match v with
    | VNum x => is_nan x
    | VList l => existsb v_has_nan l
    | VRec r => existsb (fun kv => v_has_nan (snd kv)) r
    | VLam _ _ _ sc => existsb (fun kv => v_has_nan (snd kv)) sc
    | _ => false
    end.
  Fixpoint v_has_both_quotes (v : value) : bool :=
    match v with
    | VStr s => both_quotes s
    | VList l => existsb v_has_both_quotes l
    | VRec r => existsb (fun kv => both_quotes (fst kv) || v_has_both_quotes (snd kv)) r
    | VLam _ _ _ sc => existsb (fun kv => v_has_both_quotes (snd kv)) sc
    | _ => false
    end.
  Fixpoint v_do_shadows (v : value) : bool :=
    match v with
    | VList l => existsb v_do_shadows l
    | VRec r => existsb (fun kv => v_do_shadows (snd kv)) r
    | VLam _ _ b sc => do_shadows (map fst sc) b || existsb (fun kv => v_do_shadows (snd kv)) sc
    | _ => false
    end.
  (* a closure whose current display name is one of its captured names (F8) *)
  Fixpoint v_self_shadow (st : store) (v : value) : bool :=
    match v with
    | VList l => existsb (v_self_shadow st) l
    | VRec r => existsb (fun kv => v_self_shadow st (snd kv)) r
    | VLam id _ _ sc =>
        (match lam_name st id with Some n => mem n (map fst sc) | None => false end)
        || existsb (fun kv => v_self_shadow st (snd kv)) sc
    | _ => false
    end.
  Fixpoint v_body_lossy (v : value) : bool :=
    match v with
    | VList l => existsb v_body_lossy l
    | VRec r => existsb (fun kv => v_body_lossy (snd kv)) r
    | VLam _ _ b sc => top_natural b || paren_lossy b || existsb (fun kv => v_body_lossy (snd kv)) sc
    | _ => false
    end.
  (* the body of the function, or of a captured closure, has via / into / where at its top
     level: written after `(args) =>` it needs parentheses (F51) *)
  Fixpoint v_top_natural (v : value) : bool :=
    match v with
    | VList l => existsb v_top_natural l
    | VRec r => existsb (fun kv => v_top_natural (snd kv)) r
    | VLam _ _ b sc => top_natural b || existsb (fun kv => v_top_natural (snd kv)) sc
    | _ => false
    end.
End Classes.

Definition bit (b : bool) : string := if b then "1" else "0".

(* one line per case of the EMIT correspondence:
   classes (nan, escape, bothq, doshadow, selfname, closed, lossy-before, lossy-after, body needs
   lambda-body parentheses) and, for
   each of the two ASTs produced by the implementation, which model variants it equals
   (nanfix,dofix) = (0,0) (1,0) (0,1) (1,1) *)
Definition emit_report (st : store) (v : value) (ast1 ast2 : option expr) : string :=
  let m := fun n d => show_oexpr (emit_ast n d v) in
  let cmp := fun (a : option expr) =>
    match a with
    | None => "----"
    | Some e => let s := show_expr e in
                bit (String.eqb s (m false false)) ++ bit (String.eqb s (m true false)) ++
                bit (String.eqb s (m false true)) ++ bit (String.eqb s (m true true))
    end in
  "C" ++ bit (v_has_nan v) ++ bit (v_needs_escape v) ++ bit (v_has_both_quotes v)
      ++ bit (v_do_shadows v) ++ bit (v_self_shadow st v) ++ bit (closed_after_capture v)
      ++ bit (v_body_lossy v)
      ++ bit (match emit_ast true true v with Some e => paren_lossy e | None => false end)
      ++ bit (v_top_natural v)
  ++ " A1" ++ cmp ast1 ++ " A2" ++ cmp ast2.

(* ------------------------------------------------------------------------------------------ *)
(* first-order bodies: no lambda is created while the body runs, no `#input` reference, and
   assignments only as direct statements of do-blocks (where they may shadow; elsewhere an
   assignment consults the CALLER's scope chain, finding F32 of C04).  For these bodies the
   inlining theorem (proofs/EmitSound.v) is an equality of outcomes and stores. *)
Fixpoint first_order_body (e : expr) {struct e} : bool :=
  match e with
  | ELam _ _ | EInRef _ | EAssign _ _ | EOutput _ => false   (* `output` is a statement form *)
  | EList items =>
      (fix go (l : list (commented expr)) : bool :=
         match l with [] => true | Cm _ a _ :: r => first_order_body a && go r end) items
  | ERec entries =>
      (fix go (l : list (commented rentry)) : bool :=
         match l with
         | [] => true
         | Cm _ (REntry k v) _ :: r =>
             (match k with
              | KDyn a => first_order_body a && first_order_body v
              | KSpread a => first_order_body a
              | KStatic _ => first_order_body v
              | KShort _ => true
              end) && go r
         end) entries
  | ECond c t f => first_order_body c && first_order_body t && first_order_body f
  | EDo stmts (Cm _ ret _) =>
      (fix go (l : list (commented expr)) : bool :=
         match l with
         | [] => true
         | Cm _ a _ :: r =>
             (match a with EAssign _ v => first_order_body v | _ => first_order_body a end) && go r
         end) stmts && first_order_body ret
  | EUn _ a | EFact a | ESpread a | EDot a _ => first_order_body a
  | ECall f args =>
      first_order_body f && (fix go (l : list expr) : bool :=
                               match l with [] => true | a :: r => first_order_body a && go r end) args
  | EAccess a i => first_order_body a && first_order_body i
  | EBin _ l r => first_order_body l && first_order_body r
  | _ => true
  end.

(* names the evaluator never looks up in the environment *)
Definition special_name (x : string) : bool :=
  String.eqb x "infinity" || String.eqb x "inf" || String.eqb x "constants".
