(* Cli.v — the command-line driver: blots/src/main.rs `run` (script modes), parse_json_inputs,
   write_outputs, and SerializableValue::to_value (values.rs:733) for the input values.
   Definitions only (lemmas: proofs/Cli.v, property theorems: Properties/C19.v).

   What is NOT in the model (library / platform code, compared by the CLI stream instead):
   clap argument parsing; JSON text <-> serde_json::Value; SerializableValue::from_json (the
   harness prints its result as an [sval] term); process exit, stdout/stderr, file creation;
   the REPL; `--format`, `--completions`, `--profile`. *)
From Coq Require Import String Ascii List ZArith Bool.
Require Import Blots.Num Blots.gen.Builtins Blots.Ast Blots.Value Blots.Outcome Blots.Binop
               Blots.Env Blots.Eval Blots.Show Blots.Program.
Import ListNotations.
Open Scope list_scope.
Local Open Scope nat_scope.
Open Scope string_scope.

(* ------------------------------------------------------------------------------------------
   SerializableValue as SerializableValue::from_json leaves it.  A Lambda carries its argument
   list and the result of re-parsing its printed body (`get_pairs(&s_lambda.body)?` +
   `pairs_to_expr(..)?` in to_value), done by the real parser in the harness: None = that `?`
   fired.  A BuiltIn carries the result of BuiltInFunction::from_ident.  Functions that come
   from JSON have `scope: None` and `name: None`. *)
Inductive sval :=
| SNum (x : num)
| SBool (b : bool)
| SNull
| SStr (s : string)
| SList (l : list sval)
| SRec (r : list (string * sval))
| SLam (args : list lamarg) (body : option expr)
| SBuiltin (b : option builtin).

(* SerializableValue::to_value: allocates heap cells left to right; `collect::<Result<_>>()?`
   stops at the first element that fails (cells allocated so far stay allocated). *)
Fixpoint to_value (st : store) (s : sval) {struct s} : option value * store :=
  match s with
  | SNum x => (Some (VNum x), st)
  | SBool b => (Some (VBool b), st)
  | SNull => (Some VNull, st)
  | SStr x => (Some (VStr x), st)
  | SList l =>
      let r :=
        (fix go (st : store) (l : list sval) {struct l} : option (list value) * store :=
           match l with
           | [] => (Some [], st)
           | x :: rest =>
               match to_value st x with
               | (Some v, st1) =>
                   match go st1 rest with
                   | (Some vs, st2) => (Some (v :: vs), st2)
                   | (None, st2) => (None, st2)
                   end
               | (None, st1) => (None, st1)
               end
           end) st l in
      (option_map VList (fst r), snd r)
  | SRec es =>
      let r :=
        (fix go (st : store) (acc : list (string * value)) (l : list (string * sval)) {struct l}
           : option (list (string * value)) * store :=
           match l with
           | [] => (Some acc, st)
           | (k, x) :: rest =>
               match to_value st x with
               | (Some v, st1) => go st1 (rec_insert acc k v) rest
               | (None, st1) => (None, st1)
               end
           end) st [] es in
      (option_map VRec (fst r), snd r)
  | SLam args (Some body) =>
      let '(v, st') := fresh_lambda st args body [] in (Some v, st')
  | SLam _ None => (None, st)
  | SBuiltin (Some b) => (Some (VBuiltin b), st)
  | SBuiltin None => (None, st)
  end.

(* ------------------------------------------------------------------------------------------
   one JSON text given on stdin or with --input, after serde_json::from_str *)
Inductive input_src :=
| IBad                                   (* serde_json::from_str failed *)
| IObj (entries : list (string * sval))  (* an object: entries in serde_json::Map order *)
| IVal (v : sval).                       (* any other JSON value *)

(* `for (k, v) in obj.iter() { if let Ok(val) = ..to_value(..) { inputs_map.insert(k, val) } }`:
   an entry whose value does not load is silently skipped *)
Fixpoint load_entries (st : store) (acc : list (string * value)) (es : list (string * sval))
  : list (string * value) * store :=
  match es with
  | [] => (acc, st)
  | (k, sv) :: rest =>
      match to_value st sv with
      | (Some v, st1) => load_entries st1 (rec_insert acc k v) rest
      | (None, st1) => load_entries st1 acc rest
      end
  end.

Definition value_key (n : nat) : string := "value_" ++ nat_to_dec n.

(* parse_json_inputs (main.rs:32): None = the "[input error]" exit *)
Definition parse_json_inputs (st : store) (counter : nat) (src : input_src)
  : option (list (string * value)) * store * nat :=
  match src with
  | IBad => (None, st, counter)
  | IObj es => let '(m, st1) := load_entries st [] es in (Some m, st1, counter)
  | IVal sv =>
      match to_value st sv with
      | (Some v, st1) => (Some [(value_key (S counter), v)], st1, S counter)
      | (None, st1) => (Some [], st1, counter)          (* dropped; the counter does not move *)
      end
  end.

(* `for (k, v) in map { inputs_map.insert(k, v); }` *)
Definition merge_into (acc m : list (string * value)) : list (string * value) :=
  rec_insert_all acc m.

(* the --input loop (main.rs:355) *)
Fixpoint collect_flags (st : store) (counter : nat) (acc : list (string * value))
         (flags : list input_src) : option (list (string * value)) * store :=
  match flags with
  | [] => (Some acc, st)
  | s :: rest =>
      match parse_json_inputs st counter s with
      | (None, st1, _) => (None, st1)
      | (Some m, st1, c1) => collect_flags st1 c1 (merge_into acc m) rest
      end
  end.

(* main.rs:333-373.  [stdin] = Some when stdin is piped, is read as inputs (no -e) and is not
   blank; its map REPLACES the (empty) inputs_map *)
Definition read_inputs (stdin : option input_src) (flags : list input_src)
  : option (list (string * value)) * store :=
  match stdin with
  | Some s =>
      match parse_json_inputs [] 0 s with
      | (None, st1, _) => (None, st1)
      | (Some m, st1, c1) => collect_flags st1 c1 m flags
      end
  | None => collect_flags [] 0 [] flags
  end.

(* ------------------------------------------------------------------------------------------
   how the script reaches evaluate_source *)
Inductive mode :=
| MFile          (* blots path        — the argument names an existing file *)
| MInline        (* blots 'source'    — otherwise the argument is the source *)
| MEvalStdin     (* blots -e < source — stdin is the script and is NOT an input source *)
| MNoScript.     (* no script argument, stdin piped: "Cannot start Interactive Mode" *)

Record cli_result := {
  cr_exit : option nat;                             (* None: the model abstains (Unmodelled) *)
  cr_stdout : option (list (string * value));       (* the outputs object printed on stdout *)
  cr_file : option (list (string * value)) }.       (* the outputs object written to -o FILE *)

Definition cli_fail (code : nat) : cli_result :=
  {| cr_exit := Some code; cr_stdout := None; cr_file := None |}.

(* write_outputs + exit(0) *)
Definition cli_emit (out_file : bool) (outs : list (string * value)) : cli_result :=
  if out_file then {| cr_exit := Some 0; cr_stdout := None; cr_file := Some outs |}
  else {| cr_exit := Some 0; cr_stdout := Some outs; cr_file := None |}.

(* evaluate_source hands `inner_pair.into_inner()` of an output_declaration to evaluate_pairs:
   the parser never builds Expr::Output, the statement KIND carries it ([SOut e] with e an
   identifier or an assignment; Program.exec_stmt finds the declared name in e). *)
Definition cli_session (st : store) (inputs : list (string * value)) : session :=
  {| s_cfg := (st, [(FOwned, [("inputs", VRec inputs)])]); s_outputs := [] |}.

(* how a statement that stopped the loop ends the process *)
Definition stop_exit (r : stmt_result) : option nat :=
  match r with
  | ROk _ | RSkip => Some 0
  | RFail Panic => Some 101          (* the interpreter thread panicked: main exits 101 *)
  | RFail Unmodelled => None
  | RFail _ => Some 1                (* "[evaluation error]" exit(1) *)
  | ROutErr => Some 1                (* "[output error]" exit(1) *)
  end.
Definition is_rok (r : stmt_result) : bool := match r with ROk _ | RSkip => true | _ => false end.

(* the first result that is not ROk (run stops there, so it is the last one) *)
Fixpoint first_stop (rs : list (stmt_result * store)) : option stmt_result :=
  match rs with
  | [] => None
  | (r, _) :: rest => if is_rok r then first_stop rest else Some r
  end.

Section Cli.
  Variable eval : cfg -> expr -> result.

  (* evaluate_source on a parsed script + write_outputs + exit *)
  Definition run_script (out_file : bool) (s0 : session) (p : list stmt) : cli_result :=
    let '(s, rs) := run eval s0 p in
    match first_stop rs with
    | None => cli_emit out_file (s_outputs s)
    | Some r =>
        match stop_exit r with
        | Some code => cli_fail code
        | None => {| cr_exit := None; cr_stdout := None; cr_file := None |}
        end
    end.

  (* main.rs `run`, script modes.  [prog] = None when get_pairs rejects the script. *)
  Definition cli_run (m : mode) (out_file : bool) (stdin : option input_src)
             (flags : list input_src) (prog : option (list stmt)) : cli_result :=
    let stdin_inputs := match m with MEvalStdin => None | _ => stdin end in
    match read_inputs stdin_inputs flags with
    | (None, _) => cli_fail 1                        (* "[input error]" *)
    | (Some inputs, st) =>
        match m with
        | MNoScript =>
            (* main.rs "Cannot start Interactive Mode after reading piped input": exit(1), nothing
               is written (repo fix 43a3324; before it, `-o FILE` received an empty object) *)
            cli_fail 1
        | _ =>
            match prog with
            | None => cli_fail 1                     (* "Parse error" *)
            | Some p => run_script out_file (cli_session st inputs) p
            end
        end
    end.
End Cli.

(* ------------------------------------------------------------------------------------------
   canonical text of a result (twin of checks/c19.py canon functions): what the outputs object looks
   like after serde_json: non-finite numbers become 0, records nested inside a value are
   serde_json::Map = BTreeMap (sorted by key bytes), the top-level object is the IndexMap in
   insertion order, functions are compared as "FN" only (their text is C05's business). *)
Fixpoint insert_by_key (kv : string * string) (l : list (string * string)) :=
  match l with
  | [] => [kv]
  | h :: t => match string_cmp (fst kv) (fst h) with
              | Gt => h :: insert_by_key kv t
              | _ => kv :: l
              end
  end.
Definition sort_by_key (l : list (string * string)) := fold_right insert_by_key [] l.

Fixpoint show_json (v : value) : string :=
  match v with
  | VNum x => "N" ++ show_num (if is_finite x then x else nzero)
  | VBool true => "T"
  | VBool false => "F"
  | VNull => "U"
  | VStr s => "S" ++ hex_of_string s ++ ";"
  | VList l => "L[" ++ join "," (map show_json l) ++ "]"
  | VRec r =>
      match rec_get r "__blots_function" with
      | Some (VStr _) => "FN"      (* in JSON text this record IS a function object *)
      | _ =>
      "R{" ++ join "," (map snd (sort_by_key
               (map (fun kv => (fst kv, hex_of_string (fst kv) ++ ":" ++ show_json (snd kv))) r)))
           ++ "}"
      end
  | VLam _ _ _ _ | VBuiltin _ => "FN"
  | VSpread x => "X" ++ show_json x
  end.

Definition show_obj (o : option (list (string * value))) : string :=
  match o with
  | None => "-"
  | Some r => "{" ++ join "," (map (fun kv => hex_of_string (fst kv) ++ ":" ++ show_json (snd kv)) r)
                  ++ "}"
  end.

Definition show_cli (r : cli_result) : string :=
  match cr_exit r with
  | None => "UNMODELLED"
  | Some code =>
      "EXIT:" ++ nat_to_dec code ++ ";OUT:" ++ show_obj (cr_stdout r) ++ ";FILE:" ++ show_obj (cr_file r)
  end.

(* the merged inputs alone (INPUTS stream) *)
Definition show_inputs (stdin : option input_src) (flags : list input_src) : string :=
  match read_inputs stdin flags with
  | (None, _) => "INPUTERR"
  | (Some m, _) => show_obj (Some m)
  end.
