#!/bin/sh
# Build everything the checks need from files on disk only (offline).
set -e
cd "$(dirname "$0")"
export CARGO_NET_OFFLINE=true
mkdir -p _build evidence replays
python3 - <<'PY'
import sys
sys.path.insert(0, "checks")
import common as c
h = c.build_harness()
c.regen_all(h)
c.build_cli("release")
ok, log = c.coq_make([])
if not ok:
    print(log[-6000:])
    sys.exit(1)
print("setup ok")
PY
