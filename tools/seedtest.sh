#!/bin/sh
# usage: tools/seedtest.sh <patch.diff> <Cxx> [<Cyy> ...]
# applies the patch to /repo, runs the quick checks, always restores /repo.
patch="$1"; shift
cd /verif
git -C /repo diff --quiet || { echo "/repo is dirty"; exit 2; }
git -C /repo apply "$patch" || { echo "patch does not apply"; exit 2; }
for p in "$@"; do
  echo "== $p"
  ./check "$p" --tier quick 2>/dev/null | grep -E "VIOLATION|KNOWN" | cut -c1-200
  echo "   exit=$?"
done
git -C /repo checkout -- . && git -C /repo clean -fdq
