#!/bin/sh
# usage: tools/seedtest.sh <patch.diff> <Cxx> [<Cyy> ...]
# Runs the quick checks against /repo's HEAD with the patch applied.  Default: in a scratch
# worktree (VERIF_REPO), so that concurrent work on /repo is not disturbed; with SEED_INPLACE=1 the
# patch is applied to /repo itself (git -C /repo apply) and undone afterwards.
patch="$(readlink -f "$1")"; shift
cd /verif
if [ "$SEED_INPLACE" = 1 ]; then
  git -C /repo diff --quiet || { echo "/repo is dirty"; exit 2; }
  git -C /repo apply "$patch" || { echo "patch does not apply"; exit 2; }
  for p in "$@"; do echo "== $p"; ./check "$p" --tier quick 2>/dev/null | grep -E "VIOLATION|KNOWN" | cut -c1-200; done
  git -C /repo checkout -- . && git -C /repo clean -fdq
else
  W=/tmp/seedrepo.$$
  git -C /repo worktree remove --force $W 2>/dev/null
  git -C /repo worktree add -q $W HEAD || exit 2
  git -C $W apply "$patch" || { echo "patch does not apply"; git -C /repo worktree remove --force $W; exit 2; }
  for p in "$@"; do echo "== $p"; VERIF_REPO=$W ./check "$p" --tier quick 2>/dev/null | grep -E "VIOLATION|KNOWN" | cut -c1-200; done
  git -C /repo worktree remove --force $W
fi
