#!/bin/sh
# usage: tools/seedall.sh [<id> ...]   — re-run every filed seeded mutation (seeded/<id>/patch.diff)
# against the quick check of the property it breaks; prints one line per seed:
#   <id> caught (n VIOLATION lines, m with a concrete input) | MISSED | patch-does-not-apply
cd /verif
ids="$*"; [ -z "$ids" ] && ids=$(ls seeded)
for id in $ids; do
  prop=$(python3 -c "import json,sys; print(json.load(open('seeded/$id/meta.json')).get('breaks_property','').split()[0])" 2>/dev/null)
  [ -z "$prop" ] && prop=$(echo "$id" | cut -d- -f1)
  out=$(sh tools/seedtest.sh "seeded/$id/patch.diff" "$prop" 2>&1)
  if echo "$out" | grep -q "does not apply"; then echo "$id patch-does-not-apply"; continue; fi
  n=$(echo "$out" | grep -c "^VIOLATION")
  m=$(echo "$out" | grep "^VIOLATION" | grep -vc "no-failing-input-found")
  if [ "$n" -gt 0 ]; then echo "$id caught ($n VIOLATION lines, $m with a concrete input)"; else echo "$id MISSED"; fi
done
