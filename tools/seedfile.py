#!/usr/bin/env python3
"""usage: tools/seedfile.py <dir from a seeding agent> <new id> <breaks property> <asked property> <needs> <caught_by> <note>
Files a confirmed seeded change as seeded/<id>/ (patch.diff, demo.sh, README.md, extra inputs, meta.json)."""
import json, os, shutil, sys
src, sid, breaks, asked, needs, caught, note = sys.argv[1:8]
dst = os.path.join(os.path.dirname(os.path.dirname(os.path.abspath(__file__))), "seeded", sid)
os.makedirs(dst, exist_ok=True)
for f in os.listdir(src):
    if f.endswith(".log") or f.startswith("test") and f.endswith(".txt"):
        continue
    p = os.path.join(src, f)
    if os.path.isfile(p) and os.path.getsize(p) < 200000:
        shutil.copy(p, os.path.join(dst, f))
meta = {"id": sid, "breaks_property": breaks, "asked_for_property": asked, "needs_to_manifest": needs,
        "confirmed": "tools/seedverify.sh: patch applies to /repo HEAD, compiles, 435/435 existing tests pass with it, "
                     "demo.sh exits 0 without and non-zero with the patch (re-run by the integrator in a scratch worktree)",
        "checks_run": "tools/seedtest.sh seeded/%s/patch.diff %s (quick tier)" % (sid, breaks),
        "caught_by": caught, "note": note, "round": 4}
json.dump(meta, open(os.path.join(dst, "meta.json"), "w"), indent=1)
print("filed", dst)
