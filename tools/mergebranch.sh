#!/bin/sh
# usage: tools/mergebranch.sh <branch>   — merge a builder branch; generated files are regenerated
cd /verif
git merge "$1" -m "merge $1" >/tmp/merge.log 2>&1
for f in MANIFEST.json known_findings.json; do git checkout --ours $f 2>/dev/null; done
for f in $(git diff --name-only --diff-filter=U); do
  case $f in
    MANIFEST.json|known_findings.json) ;;
    evidence/*) git checkout --theirs "$f" ;;
    *) echo "REAL CONFLICT: $f" ;;
  esac
done
python3 tools/mkmanifest.py | tail -1
if git diff --name-only --diff-filter=U | grep -v "MANIFEST.json\|known_findings.json\|^evidence/" | grep -q .; then echo "unresolved conflicts remain"; exit 1; fi
git add -A && git commit -qm "merge $1" && git log --oneline -1
