#!/usr/bin/env python3
"""Assemble /verif/MANIFEST.json from the MANIFEST dict of every checks/cNN.py module
(so adding a property touches no shared file) and validate it against the schema."""
import importlib
import json
import os
import sys

HERE = os.path.dirname(os.path.dirname(os.path.abspath(__file__)))
sys.path.insert(0, os.path.join(HERE, "checks"))

props = [json.loads(l)["id"] for l in open(os.path.join(HERE, "properties.jsonl")) if l.strip()]
na_path = os.path.join(HERE, "checks", "not_applicable.json")
na_reasons = json.load(open(na_path)) if os.path.exists(na_path) else {}
checks, na, served = [], [], []
for pid in props:
    try:
        mod = importlib.import_module(pid.lower())
        m = getattr(mod, "MANIFEST")
    except (ModuleNotFoundError, AttributeError):
        na.append({"property_id": pid, "reason": na_reasons.get(
            pid, "check not built yet (machinery under construction; see DESIGN.md section 6 for the plan)")})
        continue
    served.append(pid)
    checks.append({
        "property_id": pid,
        "quick_cmd": "./check %s --tier quick" % pid,
        "thorough_cmd": "./check %s --tier thorough" % pid,
        "evidence_file": "evidence/%s.json" % pid,
        "replay_cmd_template": "./check %s --replay {path}" % pid,
        "engine": "coq-model",
        "level_claimed": {"category": m.get("category", "proof"), "text": m["text"],
                          "design_ref": m.get("design_ref", "DESIGN.md section 6 %s" % pid)},
        "level_note": m["note"],
        "technique": m.get("technique", "Coq proof over hand-written model + differential correspondence (vm_compute vs Rust) + implementation-level law search"),
    })
hooks_path = os.path.join(HERE, "checks", "hooks.json")
hooks = json.load(open(hooks_path))
man = {
    "version": 1,
    "setup_cmd": "./setup.sh",
    "hooks": hooks,
    "engines": [{"name": "coq-model", "path": "coq/", "serves_properties": served,
                 "kind_free_text": "hand-written Gallina model + tables regenerated from /repo + theorems (Coq 8.16), "
                                   "run with vm_compute against the Rust implementation through harness/"}],
    "checks": checks,
    "notes": "MANIFEST.json is assembled by tools/mkmanifest.py from checks/cNN.py; see DESIGN.md",
    "not_applicable": na,
}
# known_findings.json is the concatenation of the per-property fragments known/Cxx.json
frs = []
kdir = os.path.join(HERE, "known")
for fn in sorted(os.listdir(kdir)) if os.path.isdir(kdir) else []:
    if fn.endswith(".json"):
        frs += json.load(open(os.path.join(kdir, fn)))
with open(os.path.join(HERE, "known_findings.json"), "w") as f:
    json.dump({"comment": "assembled by tools/mkmanifest.py from known/*.json; never written by a check. "
                          "status is 'open' or 'fixed: property=Cxx <commit> <what failed>'",
               "findings": frs}, f, indent=1)
    f.write("\n")
out = json.dumps(man, indent=1)
with open(os.path.join(HERE, "MANIFEST.json"), "w") as f:
    f.write(out + "\n")
try:
    import jsonschema
    jsonschema.validate(man, json.load(open("/root/.vp/MANIFEST.schema.json")))
    print("MANIFEST.json valid: %d checks, %d not_applicable" % (len(checks), len(na)))
except ImportError:
    print("MANIFEST.json written (jsonschema not available to validate)")
