#!/usr/bin/env python3
"""prints the DESIGN.md table of the seeds of one round from seeded/*/meta.json:  tools/seedtable.py 4"""
import glob, json, os, sys
rnd = int(sys.argv[1]) if len(sys.argv) > 1 else 4
root = os.path.dirname(os.path.dirname(os.path.abspath(__file__)))
rows = [json.load(open(p)) for p in sorted(glob.glob(os.path.join(root, "seeded", "*", "meta.json")))]
rows = [m for m in rows if m.get("round") == rnd]
print("| Seed | Needs | Caught by | Check as it stood? |\n|---|---|---|---|")
for m in rows:
    n = m.get("note", "")
    tag = "**missed** -> " + n.split("->", 1)[1].strip() if n.startswith("MISSED") and "->" in n else (
        "tie only -> " + n.split("->", 1)[1].strip() if n.startswith("caught only") and "->" in n else n)
    print("| %s | %s | %s | %s |" % (m["id"], m["needs_to_manifest"], m["caught_by"], tag))
print("\n%d seeds, %d missed, %d caught only as a broken tie" % (
    len(rows), sum(1 for m in rows if m["note"].startswith("MISSED")), sum(1 for m in rows if m["note"].startswith("caught only"))))
