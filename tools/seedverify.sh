#!/bin/sh
# usage: tools/seedverify.sh <dir with patch.diff and demo.sh>
# Confirms independently what a seeding agent claims: the patch applies to /repo HEAD, the tree
# compiles, the whole existing test suite passes with it, the demonstration passes without the
# patch and fails with it.  Prints one line per fact; exit 0 iff all confirmed.
d="$(readlink -f "$1")"
W=/tmp/seedverify.$$
export CARGO_NET_OFFLINE=true
git -C /repo worktree remove --force $W 2>/dev/null
git -C /repo worktree add -q $W HEAD || exit 2
ok=0
( cd $W && cargo build --offline -q -p blots </dev/null >/dev/null 2>&1 )
if [ -f "$d/demo.sh" ]; then
  sh "$d/demo.sh" $W >/tmp/seedverify.$$.clean 2>&1 </dev/null; c=$?
  echo "demo on clean tree: exit $c"; [ $c = 0 ] || ok=1
fi
git -C $W apply "$d/patch.diff" || { echo "patch does not apply"; git -C /repo worktree remove --force $W; exit 2; }
( cd $W && timeout 1800 cargo test --workspace --no-fail-fast --offline </dev/null >/tmp/seedverify.$$.test 2>&1 ); t=$?
pass=$(grep -h "^test result" /tmp/seedverify.$$.test | awk '{p+=$4; f+=$6} END {print p " passed, " f " failed"}')
echo "test suite with patch: exit $t ($pass)"; [ $t = 0 ] || ok=1
if [ -f "$d/demo.sh" ]; then
  sh "$d/demo.sh" $W >/tmp/seedverify.$$.patched 2>&1 </dev/null; p=$?
  echo "demo on patched tree: exit $p"; [ $p != 0 ] || ok=1
fi
git -C /repo worktree remove --force $W
rm -f /tmp/seedverify.$$.*
exit $ok
